"""C03 Every IR optimisation pass preserves behaviour — claimed for the const-folding pass only (DESIGN 2/C03)."""
from units import irfold

LEVEL = "proof"
TRUSTED = ["Kani 0.68 / CBMC 6.11 (+ z3 4.8.12 for mul/div/mod)", "syn-based extractor",
           "spec/vm_alu.rs (FuelVM ALU oracle transcribed from fuel-vm 0.66.4)"]
ASSUMPTIONS = ["claimed for 1 of 16 passes (const-folding): every rewrite rule of combine_binary_op / combine_unary_op / combine_cmp / remove_useless_binary_op / combine_cbr",
               "unverified: mem2reg, inline, fn-dedup, simplify-cfg, DCE, globals-DCE, CCP, CSE, SROA, memcpyopt, the demotions, arg-mutability tagging, init-aggr-lowering, and the IR mutation plumbing (replace, remove_instruction) of const-folding itself"]
EXPLANATION = ""


def build(tier):
    us = irfold.build(tier)
    for u in us:
        for o in u.obligations:
            o.prop = "C03"   # fold soundness is exactly 'the pass preserves behaviour' for this pass
    return us
