"""C17 The compiler never crashes -- narrow: panic side-obligations of the compiler functions under contract (DESIGN 2/C17)."""
from units import irfold, u256, c12, c13, c14, c07, c07idx, c07red, irtype, c13imm

LEVEL = "proof"
TRUSTED = ["Kani 0.68 / CBMC 6.11 (panic, unwrap, slice-index, division and overflow checks are generated for every reachable operation)",
           "Verus 0.2026.09.13 (callee preconditions of the axiomatised BigUint operations)", "syn-based extractor"]
ASSUMPTIONS = ["narrow claim: absence of panics in the ~40 compiler functions listed under functions_under_contract, under their call-site preconditions; everything else in sway-core is unverified",
               "type-checker invariants are preconditions: arms guarded by unreachable!/panic! for ill-typed operands are excluded",
               "integer overflow inside a compile-time evaluator is booked as a wrong value (C06/C07), not here"]
EXPLANATION = ""


def build(tier):
    us = irfold.build(tier) + irfold.build_ceval(tier) + u256.build(tier) + u256.build_literal(tier) + c12.build(tier) + c13.build(tier) + c14.build(tier) + c07idx.build(tier) + c07idx.build_inv(tier) + c07red.build(tier) + irtype.build(tier) + c13imm.build(tier)
    if tier == "thorough":
        us += c07.build(tier)
    for u in us:
        u.obligations = [o for o in u.obligations if ((o.panic_prop or o.prop) == "C17" or o.expect_fail) and not o.info_only
                         and not (tier == "quick" and o.prop == "C01")]   # the pooling harnesses cost 10 min each: thorough tier only
    return us
