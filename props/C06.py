"""C06 Compile-time evaluation agrees with run-time evaluation (DESIGN 2/C06)."""
from units import irfold, u256

LEVEL = "proof"
TRUSTED = ["Kani 0.68 / CBMC 6.11 (+ z3 4.8.12 for mul/div/mod)", "Verus 0.2026.09.13", "syn-based extractor",
           "spec/vm_alu.rs (FuelVM ALU oracle transcribed from fuel-vm 0.66.4)"]
ASSUMPTIONS = ["unverified: the rest of const_eval.rs (aggregates, transmute, encode_buffer_*, control flow, fn application), CCP's region replacement, Sway-side operators in ops.sw"]
EXPLANATION = ""


def build(tier):
    us = irfold.build(tier) + irfold.build_ceval(tier) + u256.build(tier)
    for u in us:
        u.obligations = [o for o in u.obligations if o.prop == "C06"]
    return us
