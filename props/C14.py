"""C14 Match exhaustiveness and reachability are exact -- integer range algebra only (DESIGN 2/C14)."""
from units import c14

LEVEL = "proof"
TRUSTED = ["Kani 0.68 / CBMC 6.11", "syn-based extractor", "real itertools crate"]
ASSUMPTIONS = ["claimed for integer patterns only: range.rs decides integer exhaustiveness and produces the integer witnesses"]
EXPLANATION = ""


def build(tier):
    return c14.build(tier)
