"""C29 Unit tests report exactly their outcome — verdict only (DESIGN 2/C29)."""
from units import c29

LEVEL = "proof"
TRUSTED = ["Verus 0.2026.09.13 (unbounded loop contract)", "Kani 0.68 / CBMC 6.11 (loop-free harness over full-domain symbolic inputs)", "syn-based extractor (byte copy by span)",
           "hand-written environment: TestResult reduced to (state, condition); DebugEval shim"]
ASSUMPTIONS = ["unverified: how the expectation is read from the #[test(should_revert)] attribute; test isolation (fresh storage/interpreter per test); log filtering"]
EXPLANATION = ""


def build(tier):
    return c29.build(tier) + c29.build_verus(tier)
