"""C21 Reading any lock file never crashes (DESIGN 2/C21) -- bounded."""
from units import lock

LEVEL = "other"
TRUSTED = ["Kani 0.68 / CBMC 6.11", "syn-based extractor"]
ASSUMPTIONS = ["unverified: the five source::Pinned::from_str parsers, Lock::to_graph assembly, toml::de"]
EXPLANATION = ("Bounded stand-in only: the lock-file dependency-line parser is checked for panic freedom on every line up to the stated length over "
               "the delimiter alphabet; nothing here is counted as proved.")


def build(tier):
    return lock.build(tier)
