"""C13 Configurables patched at the reported offsets are observed -- partial (DESIGN 2/C13)."""
from units import c13, c13imm

LEVEL = "proof"
TRUSTED = ["Kani 0.68 / CBMC 6.11", "syn-based extractor"]
ASSUMPTIONS = ["the property reduces to one layout function used consistently plus the serialiser agreeing with it; only those Rust pieces are under contract"]
EXPLANATION = ""


def build(tier):
    us = c13.build(tier) + c13imm.build(tier)
    for u in us:
        u.obligations = [o for o in u.obligations if o.prop == "C13"]
    return us
