"""C01 Compiled scripts compute what the Sway semantics prescribe -- claimed NARROWLY: one necessary condition (DESIGN 2/C01)."""
from units import c13

LEVEL = "other"
TRUSTED = ["Kani 0.68 / CBMC 6.11", "syn-based extractor"]
ASSUMPTIONS = ["narrow claim: only the constant-pooling step of the data section (DataSection::insert_data_value / Entry::equiv) is under contract; "
               "everything else the property quantifies over (type checking, IR generation, passes, instruction selection, register allocation, std) is unverified"]
EXPLANATION = ("A necessary condition of the property, bounded: a constant placed in the data section is read back with the bytes of ITS OWN layout "
               "(pooling equal values must not ignore paddings). Checked on concrete pairs of constant shapes with symbolic element values; not counted as proved.")


def build(tier):
    us = c13.build(tier)
    for u in us:
        u.obligations = [o for o in u.obligations if o.prop == "C01"]
    return us
