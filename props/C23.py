"""C23 LSP document sync reproduces the client's text (DESIGN 2/C23) -- histories by induction, text size bounded."""
from units import c23

LEVEL = "other"
TRUSTED = ["Kani 0.68 / CBMC 6.11", "syn-based extractor", "LSP reference in the unit"]
ASSUMPTIONS = []
EXPLANATION = ("One step of apply_change is verified from an arbitrary well-formed document, so the result holds for histories of any length by induction; "
               "the size of the document text is bounded (stated per obligation) and the std string mutators are under contract stubs. Bounded, not counted as proved.")


def build(tier):
    return c23.build(tier)
