"""C12 Initial storage slots match what storage reads return -- partial: slot-key arithmetic (DESIGN 2/C12)."""
from units import c12

LEVEL = "proof"
TRUSTED = ["Kani 0.68 / CBMC 6.11", "syn-based extractor", "real `uint` crate 0.9"]
ASSUMPTIONS = []
EXPLANATION = ""


def build(tier):
    return c12.build(tier)
