"""C07 Assembly-level optimisations preserve behaviour — claimed for constant propagation (DESIGN 2/C07)."""
from units import c07, c07idx, c07red, c07flag

LEVEL = "proof"
TRUSTED = ["Kani 0.68 / CBMC 6.11 (+ z3 4.8.12)", "syn-based extractor", "spec/vm_alu.rs (FuelVM ALU oracle transcribed from fuel-vm 0.66.4)",
           "environment shims listed under assumptions"]
ASSUMPTIONS = ["claimed for constant_propagate (rule table), the MUL arm of const_indexing_aggregates_function and the classification statement of remove_redundant_ops; unverified: the rest of const_indexing_aggregates_function, dce, simplify_cfg, remove_sequential_jumps, remove_redundant_moves, (remove_redundant_ops is under contract: classification statement, and the whole function on 3/4-instruction blocks incl. its flag guard), MROO rule"]
EXPLANATION = ""


def build(tier):
    return c07red.build(tier) + c07flag.build(tier) + c07idx.build(tier) + c07idx.build_inv(tier) + c07.build(tier)
