"""C22 Build order respects dependencies (DESIGN 2/C22)."""
from units import c22

LEVEL = "proof"
TRUSTED = ["Verus 0.2026.09.13 (Z3)", "syn-based extractor", "assumed contracts of petgraph::algo::toposort and petgraph::visit::Reversed"]
ASSUMPTIONS = ["unverified: that BuildPlan::build iterates compilation_order (one for loop, read, not contracted)"]
EXPLANATION = ""


def build(tier):
    # the bounded cross-check on the real petgraph (c22.build_kani) does not finish in CBMC even for 1-node graphs (DESIGN 0A.3)
    return c22.build(tier)
