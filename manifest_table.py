"""Source of MANIFEST.json (tools/mkmanifest.py). One entry per claimed property."""
NOTES = ("Contract-based deductive verification of functions extracted mechanically from /repo on every run "
         "(tools/extract, syn spans). exit 0 holds / exit 1 VIOLATION / exit 2 undecided (lost anchor, tool limit). See DESIGN.md.")

# properties whose thorough tier has been run to completion (exit 0) on the unchanged tree
THOROUGH_VALIDATED = {"C01", "C03", "C06", "C07", "C12", "C13", "C14", "C21", "C22", "C29"}   # C17, C23: the thorough tier ran out of time on this machine and is not registered; C07 thorough: 42 min for c07_constprop (jobs=5, hse groups 7-15 GB each) + 14 min for the MUL arm of c07_constidx_inv

CHECKS = [
    {"id": "C01", "engine": "kani", "level": "other", "design_ref": "DESIGN.md 0A.1, 0A.2 (D10)",
     "technique": "Kani harnesses on the extracted Entry::equiv (data-section constant pooling) over concrete shape pairs with symbolic values",
     "text": "Narrow claim, one necessary condition only: two data-section constants are pooled into one entry only if their values and paddings agree at every level. Bounded (concrete shape pairs); everything else C01 quantifies over is unverified.",
     "note": "Trusted: Kani/CBMC, extractor. Bounded stand-in, not counted as proved."},
    {"id": "C03", "engine": "kani", "level": "proof", "design_ref": "DESIGN.md 2/C03, 0A.1",
     "technique": "Kani loop-free full-domain harnesses on the extracted rule matches of the const-folding pass against a FuelVM ALU oracle",
     "text": "For the const-folding pass only (1 of 16 passes): every rewrite rule of combine_binary_op/unary_op/cmp on 64-bit operands, remove_useless_binary_op and combine_cbr is proved to preserve the VM outcome (value and panic) for all u64 operands and all $flag settings. All other passes are unverified and listed as such.",
     "note": "Trusted: Kani/CBMC/z3, extractor, spec/vm_alu.rs oracle, shims for Context/Type/Constant handles. Known finding D3 (narrow NOT) is reported as KNOWN-FINDING."},
    {"id": "C06", "engine": "kani+verus", "level": "proof", "design_ref": "DESIGN.md 2/C06, 0A.1",
     "technique": "Kani full-domain harnesses (u64 arms) and Verus contracts (U256 arithmetic, nat-level) on extracted compile-time evaluators against a FuelVM ALU oracle",
     "text": "Soundness of compile-time evaluation rule by rule: whenever an extracted folding arm (IR const-folding, const_eval_intrinsic; 64-bit and 256-bit) yields Some(v), the VM instruction the real lowering tables select yields v without panicking, for every operand and every $flag. U256's checked operations are proved against nat-level contracts and the 256-bit arms are checked against those contracts, not bodies.",
     "note": "Trusted: Kani/CBMC/z3, Verus, extractor, ALU oracle, BigUint axioms, arena shims. Unverified: aggregates/transmute/control flow in const_eval.rs, CCP. Known finding D3."},
    {"id": "C07", "engine": "kani", "level": "proof", "design_ref": "DESIGN.md 2/C07, 0A.1, 0A.3",
     "technique": "Kani transfer-function soundness harness per opcode on the verbatim rule table of constant_propagate (callee contracts via -Z stubbing, uninterpreted hard arithmetic) and on the lifted retain_mut closure of const_indexing_aggregates_function against a tracking invariant; contracts on the decision fragments of remove_redundant_ops / remove_sequential_jumps",
     "text": "Constant propagation: one iteration of the optimisation loop is reassembled from verbatim fragments and, per opcode, proved to leave the VM outcome (registers, $of, $err, panic) unchanged for every register file, every abstract state and every $flag, and to keep only true facts. Register file of 2 virtual + 5 named registers. Constant-indexed aggregates: every modelled op (ADD, ADDI, MOVI, LW, SW, MOVE, organizational ops; MUL in the thorough tier) preserves the invariant that what the tables say about a register is true of the machine, a rewritten LW/SW accesses the same address and a removed MOVE is a no-op (found and fixed D19). Redundant-op / sequential-jump removal: an op classified removable changes no register and no memory; a jump reported dead is a non-call jump to the next line; remove_redundant_ops as a whole returns an equivalent block for every 3-instruction block of the model (bounded; found and fixed D20, the flag guard).",
     "note": "Assumed (not discharged): contracts of KnownValues::remove_reg_and_dependents and ResetKnown::apply; has_side_effect's contract is discharged in the thorough tier only. Unverified: dce / reachability, simplify_cfg, remove_redundant_moves, LoadDataId and catch-all arms of const_indexing_aggregates_function."},
    {"id": "C12", "engine": "kani", "level": "proof", "design_ref": "DESIGN.md 2/C12, 0A.1",
     "technique": "Kani full-domain harness on the extracted add_to_b256 with the real uint crate",
     "text": "Partial: the slot-key arithmetic (consecutive slots are base, base+1, ...) is proved for all 256-bit keys and 64-bit offsets whose sum fits; the overflow panic is known finding D9. Key strings, value layout and the Sway read side are unverified.",
     "note": "Trusted: Kani/CBMC, extractor, uint crate. Known finding D9 is booked under C17."},
    {"id": "C13", "engine": "kani", "level": "proof", "design_ref": "DESIGN.md 2/C13, 0A.1, 0A.3",
     "technique": "Kani full-domain harnesses on the extracted layout arithmetic, absolute_idx, immediate_to_reg and set_bytecode_configurables_offset; bounded inductive step tying serialize_to_bytes' loop body to absolute_idx_to_offset's fold closure with Entry::to_bytes under a contract stub",
     "text": "Partial: the word-alignment step of the data-section layout (for any number of entries, by induction), the per-entry step (the serialiser advances exactly as the offset function does, entry bytes at the offset, zero gap; bounded sizes), the absolute index of a configurable, how lengths/offsets of configurables reach registers, and the frame of the configurables-offset patch. Collection-level layout statements did not finish in CBMC and are not claimed.",
     "note": "Trusted: Kani/CBMC, extractor. Unverified: to_bytecode_mut, fuel_abi.rs, the Sway/VM side."},
    {"id": "C14", "engine": "kani", "level": "proof", "design_ref": "DESIGN.md 2/C14, 0A.1",
     "technique": "Kani harnesses on the verbatim impl Range<T> (range.rs) against set semantics with a symbolic member value",
     "text": "Integer patterns only: overlaps/within_one/encompasses/join_ranges are proved for all valid u8 and u64 ranges; condense_ranges, find_exclusionary_ranges and do_ranges_equal_range are checked for up to 2 (thorough: 3) point guides (bounded, reported separately). The usefulness recursion is unverified.",
     "note": "Trusted: Kani/CBMC, extractor, real itertools. Precondition from the call sites: every guide is a point range."},
    {"id": "C17", "engine": "kani+verus", "level": "proof", "design_ref": "DESIGN.md 2/C17, 0A.1",
     "technique": "panic, unwrap, index, division and callee-precondition side obligations of the compiler functions under contract (Kani checks, Verus preconditions)",
     "text": "Narrow: absence of panics in the compiler functions that the other units put under contract, under their call-site preconditions. Whole-compiler panic freedom is not claimed.",
     "note": "Known findings D5 (u256 match literal), D9 (storage key overflow), D14 (array size overflow) and D18 (arrays in storage) are reported as KNOWN-FINDING lines. Everything else in sway-core is unverified."},
    {"id": "C21", "engine": "kani", "level": "other", "design_ref": "DESIGN.md 2/C21, 0A.1",
     "technique": "Kani bounded harnesses on the verbatim parse_pkg_dep_line over concrete-length lines with symbolic content",
     "text": "Bounded stand-in: the lock-file dependency-line parser neither panics nor indexes out of range on any line of up to 4 bytes over the delimiter alphabet. The five source parsers were repaired (D6) on the strength of real-code demonstrations; they are not under a harness (format!/heap strings).",
     "note": "Bounded, never counted as proved. toml deserialisation and Salt::from_str assumed total."},
    {"id": "C22", "engine": "verus", "level": "proof", "design_ref": "DESIGN.md 2/C22, 0A.1",
     "technique": "Verus contract on the extracted compilation_order against an assumed contract of petgraph::algo::toposort / Reversed",
     "text": "compilation_order is proved, for every graph, to return a permutation of the nodes with every dependency before its dependents, and an error only when no such order exists; modulo the assumed toposort/Reversed contracts.",
     "note": "Trusted: Verus/Z3, extractor, assumed petgraph contracts (listed in evidence). Unverified: BuildPlan iterating the order."},
    {"id": "C23", "engine": "kani", "level": "other", "design_ref": "DESIGN.md 2/C23, 0A.3",
     "technique": "Kani one-step contract of TextDocument::apply_change from an arbitrary well-formed document (histories by induction) against an LSP reference; String mutators under contract stubs",
     "text": "Bounded stand-in: for every document in a small concrete catalogue and every range of positions, apply_change performs exactly the splice the LSP reference prescribes (UTF-16 units, clamping, CR/LF/CRLF), rejects exactly the invalid ranges without altering the document, and never panics; histories of any length follow by induction. The document size bound is very small because CBMC cannot afford more.",
     "note": "Bounded, never counted as proved. std String::replace_range/clone_from under contract stubs."},
    {"id": "C29", "engine": "kani", "level": "proof", "design_ref": "DESIGN.md 2/C29",
     "technique": "Kani loop-free full-domain harness on extracted TestResult::passed + bounded harness on execute's terminal-state loop",
     "text": "passed() is proved equal to the declared expectation for every ProgramState and every u64 revert code (complete); the terminal-state mapping of execute() is checked for up to 3 resume steps (bounded, reported separately).",
     "note": "Trusted: Kani/CBMC, the extractor, the TestResult/DebugEval/Interpreter shims. Unverified: attribute parsing of should_revert, test isolation, log filtering."},
]

_NA = {
    "C02": "relational over two whole pipelines; its per-function content is claimed under C03/C06/C07",
    "C04": "IR verifier acceptance is a predicate over arena graphs through 16 passes; out of reach of Verus (slotmap/iterators) and Kani (unbounded graphs)",
    "C05": "parser is generated by the peg macro, printer is 1.7 kLoC of string formatting; no str reasoning in Verus, no useful Kani bound",
    "C09": "encoder/decoder are Sway code (codec.sw) and generated Sway source; no Rust function computes the bytes",
    "C10": "decided in Sway by comparing 64-bit hashes of layout trees; ground truth is in codec.sw and the VM",
    "C11": "dispatch is generated Sway source text; a contract on a string builder says nothing about its compiled behaviour",
    "C15": "process-level nondeterminism (hash seeds, pointers, threads) is outside the semantics both verifiers give to Rust functions",
    "C16": "lexer/parser are char-iterator code over 11 kLoC; Verus has no str support, Kani affordability stops at 3-4 bytes",
    "C18": "statement about the whole formatter; no sub-function contract implies it",
    "C19": "statement about the whole formatter; no sub-function contract implies it",
    "C24": "concurrency (atomics, channel, Notify): Kani has no threads, Verus needs its own permission types",
    "C25": "interleavings of processes and crash points on a shared file system",
    "C26": "whole-history statement over the query engine and the entire front end",
    "C27": "implemented in Sway (vec.sw, bytes.sw, u128.sw, math.sw); no deductive verifier for Sway here",
    "C28": "implemented in Sway (storage_*.sw); no deductive verifier for Sway here",
    "C30": "crash points between git2 and std::fs calls; state is on disk and in another process's lock",
}
# properties planned but not yet built are listed as not applicable until their check exists
_PENDING = {
    "C08": "planned as bounded only; dropped: the allocator is petgraph + BTreeSet + IndexMap code and CBMC does not finish a single instance of std collection code of that kind (DESIGN 0A.3); no model substituted",
    "C20": "planned for the line codecs; dropped: pkg_dep_line and the Display impls are format!/heap-string code CBMC cannot execute symbolically; the parsing half is covered under C21; defect D8 was repaired on a real-code demonstration",
}
_claimed = {c["id"] for c in CHECKS}
NOT_APPLICABLE = [{"property_id": k, "reason": v} for k, v in sorted({**_NA, **{k: v for k, v in _PENDING.items() if k not in _claimed}}.items()) if k not in _claimed]
