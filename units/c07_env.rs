#![recursion_limit = "512"]
#![allow(static_mut_refs, private_interfaces, private_bounds, unused, dead_code, unused_parens, unreachable_patterns, unreachable_code, non_snake_case, non_camel_case_types, unused_macros, clippy::all)]
include!("vm_alu.rs");
use either::Either;
use std::collections::BTreeSet;
use std::ops::{BitAnd, BitOr, BitXor, Not};
use vm_alu::Out;

// =====================================================================================
// environment (hand-written; every item here is listed in the evidence as an assumption)
// =====================================================================================
/// shim of sway_types::Span
#[derive(Clone, Debug, PartialEq)]
pub struct Span;
impl Span { pub fn dummy() -> Span { Span } }
/// shim of sway_error::error::CompileError (message carrier)
#[derive(Debug)]
pub enum CompileError {
    Immediate06TooLarge { val: u64, span: Span }, Immediate12TooLarge { val: u64, span: Span },
    Immediate18TooLarge { val: u64, span: Span }, Immediate24TooLarge { val: u64, span: Span },
}
/// shim of VirtualRegister: the virtual register *name* is a small integer instead of a String
#[derive(Hash, PartialEq, Eq, PartialOrd, Ord, Debug, Clone)]
pub enum VirtualRegister { Virtual(u8), Constant(ConstantRegister) }
impl VirtualRegister { pub fn is_virtual(&self) -> bool { matches!(self, Self::Virtual(_)) } }
#[derive(Clone, Copy, Debug, PartialEq, Eq, Hash)]
pub struct Label(pub usize);
#[derive(Clone, Debug)]
pub struct DataId(pub u32);
pub mod compiler_constants {
    @CONST_TWENTY_FOUR_BITS@
    @CONST_EIGHTEEN_BITS@
    @CONST_TWELVE_BITS@
    @CONST_SIX_BITS@
}
/// shim of rustc_hash::FxHashMap: fixed-capacity slot array (no heap, no element shifting) with the API subset
/// constant_propagate uses.  Capacity = number of distinct keys the harness can create.
pub const CAP: usize = 3;
#[derive(Clone, Debug)]
pub struct FxHashMap<K, V> { pub slots: [Option<(K, V)>; CAP] }
impl<K, V> Default for FxHashMap<K, V> { fn default() -> Self { FxHashMap { slots: [None, None, None] } } }
pub struct ExtractIter<K, V> { items: [Option<(K, V)>; CAP], idx: usize }
impl<K, V> Iterator for ExtractIter<K, V> {
    type Item = (K, V);
    fn next(&mut self) -> Option<(K, V)> {
        while self.idx < CAP { let i = self.idx; self.idx += 1; if let Some(x) = self.items[i].take() { return Some(x); } }
        None
    }
}
impl<K: PartialEq + Clone, V: Clone> FxHashMap<K, V> {
    pub fn get(&self, k: &K) -> Option<&V> { for s in self.slots.iter() { if let Some((a, b)) = s { if a == k { return Some(b); } } } None }
    pub fn contains_key(&self, k: &K) -> bool { self.get(k).is_some() }
    pub fn insert(&mut self, k: K, v: V) -> Option<V> {
        for s in self.slots.iter_mut() { if let Some(e) = s { if e.0 == k { return Some(std::mem::replace(&mut e.1, v)); } } }
        for s in self.slots.iter_mut() { if s.is_none() { *s = Some((k, v)); return None; } }
        unreachable!("map shim capacity exceeded")
    }
    pub fn remove(&mut self, k: &K) -> Option<V> {
        for s in self.slots.iter_mut() { if matches!(s, Some(e) if &e.0 == k) { return s.take().map(|e| e.1); } }
        None
    }
    pub fn extract_if<F: FnMut(&K, &mut V) -> bool>(&mut self, mut f: F) -> ExtractIter<K, V> {
        let mut out = ExtractIter { items: [None, None, None], idx: 0 };
        for (i, s) in self.slots.iter_mut().enumerate() {
            let hit = match s { Some(e) => f(&e.0, &mut e.1), None => false };
            if hit { out.items[i] = s.take(); }
        }
        out
    }
    pub fn retain<F: FnMut(&K, &mut V) -> bool>(&mut self, mut f: F) {
        for s in self.slots.iter_mut() {
            let keep = match s { Some(e) => f(&e.0, &mut e.1), None => true };
            if !keep { *s = None; }
        }
    }
    pub fn clear(&mut self) { for s in self.slots.iter_mut() { *s = None; } }
    pub fn entry(&mut self, k: K) -> Entry<'_, K, V> {
        for s in self.slots.iter_mut() { if let Some(e) = s { if e.0 == k { return Entry::Occupied(OccupiedEntry { slot: e }); } } }
        Entry::Vacant(())
    }
    pub fn iter(&self) -> impl Iterator<Item = &(K, V)> { self.slots.iter().filter_map(|s| s.as_ref()) }
}
/// shim of std::collections::hash_map::Entry (Occupied side only)
pub enum Entry<'a, K, V> { Occupied(OccupiedEntry<'a, K, V>), Vacant(()) }
pub struct OccupiedEntry<'a, K, V> { slot: &'a mut (K, V) }
impl<'a, K, V> OccupiedEntry<'a, K, V> { pub fn get(&self) -> &V { &self.slot.1 } pub fn get_mut(&mut self) -> &mut V { &mut self.slot.1 } }
/// shim of asm_lang::Op: the two fields constant_propagate touches
#[derive(Clone, Debug)]
pub struct Op { pub opcode: Either<VirtualOp, OrganizationalOp>, pub owning_span: Option<Span> }
pub struct AllocatedInstruction; pub struct AllocatedRegister; pub struct RegisterPool;

// =====================================================================================
// extracted verbatim from /repo (R1: attributes dropped / visibility widened only)
// =====================================================================================
#[derive(Hash, PartialEq, Eq, PartialOrd, Ord, Debug, Clone, Copy)]
@ConstantRegister@
#[derive(Clone, Debug)]
@VirtualImmediate06@
#[derive(Clone, Debug)]
@VirtualImmediate12@
#[derive(Clone, Debug)]
@VirtualImmediate18@
#[derive(Clone, Debug)]
@VirtualImmediate24@
impl VirtualImmediate12 {
    @imm12_try_new@
    @imm12_value@
}
impl VirtualImmediate18 {
    @imm18_try_new@
    @imm18_value@
}
@imm12_tryinto@
#[derive(Clone, Debug)]
@VirtualOp@
impl VirtualOp {
    @vop_def_registers@
    @vop_def_const_registers@
    @vop_has_side_effect@
    @vop_use_registers_mut@
    // R9 table views (same match arms; the Vec built before `.into_iter().collect()`)
    @vop_def_registers_table@
    @vop_def_const_registers_table@
}
/// `.into_iter().collect::<BTreeSet<_>>()` performed by insertion (CBMC cannot afford std's sort + bulk build);
/// same set -- std equivalence assumed
pub fn def_registers_by_insert(this: &VirtualOp) -> BTreeSet<&VirtualRegister> {
    let mut s = BTreeSet::new(); for r in this.def_registers_table() { s.insert(r); } s
}
pub fn def_const_registers_by_insert(this: &VirtualOp) -> BTreeSet<&VirtualRegister> {
    let mut s = BTreeSet::new(); for r in this.def_const_registers_table() { s.insert(r); } s
}
#[derive(Debug, Clone)]
@JumpType@
#[derive(Debug, Clone)]
@ControlFlowOp@
pub type OrganizationalOp = ControlFlowOp<VirtualRegister>;
impl<Reg: Ord> ControlFlowOp<Reg> {
    @cfo_def_registers@
    @cfo_def_const_registers@
    @cfo_use_registers_mut@
}
impl Op {
    @op_def_registers@
    @op_def_const_registers@
    @op_use_registers_mut@
}
#[derive(Clone, Debug, PartialEq, Eq)]
@KnownRegValue@
@KnownRegValue_impl@
#[derive(Clone, Debug, Default)]
@KnownValues@
@KnownValues_impl@
#[derive(Clone, Debug)]
@ResetKnown@
@ResetKnown_impl@
@u64_bitand@
@u64_bitor@
@u64_bitxor@
@u64_eq@
@u64_gt@
@u64_lt@
/// MROO's helper uses f64::powf, which CBMC treats as nondeterministic: MROO is not claimed; stub so the table compiles
pub fn checked_nth_root(_target: u64, _nth_root: u64) -> Option<u64> { None }

/// One iteration of the `for op in &mut self.ops` loop of constant_propagate, assembled from the verbatim pieces:
///   (a) the use-register replacement loop, (b) the JNZ rewrite, (c) the local macro + `let reset = match op.opcode.clone()`,
///   (d) `let reset = match reset {..}` fallback, (e) `reset.apply(op, &mut known_values)`.
pub fn step(op: &mut Op, known_values: &mut KnownValues, jump_target_labels: &mut FxHashMap<Label, usize>) {
    let mut log = |_s: &str| {};
    // (a)
    @USE_REPLACE_LOOP@
    // (b)
    @JNZ@
    // (c)
    @MACRO@
    @LET_RESET_0@
    // (d)
    @LET_RESET_1@
    // (e)
    reset.apply(op, known_values);
}

// =====================================================================================
// oracle side: concrete register file and instruction semantics (uses spec/vm_alu.rs)
// =====================================================================================
pub const NV: usize = 2;
#[derive(Clone, Copy, PartialEq, Debug)]
pub struct Regs { pub v: [u64; NV], pub of: u64, pub err: u64, pub a0: u64 }
impl Regs {
    pub fn get(&self, r: &VirtualRegister) -> u64 {
        match r {
            VirtualRegister::Virtual(i) => self.v[*i as usize],
            VirtualRegister::Constant(ConstantRegister::Zero) => 0,
            VirtualRegister::Constant(ConstantRegister::One) => 1,
            VirtualRegister::Constant(ConstantRegister::Overflow) => self.of,
            VirtualRegister::Constant(ConstantRegister::Error) => self.err,
            VirtualRegister::Constant(ConstantRegister::FuncArg0) => self.a0,
            _ => unreachable!("register outside the harness's register file"),
        }
    }
    pub fn set(&mut self, r: &VirtualRegister, x: u64) {
        match r {
            VirtualRegister::Virtual(i) => self.v[*i as usize] = x,
            VirtualRegister::Constant(ConstantRegister::FuncArg0) => self.a0 = x,
            _ => unreachable!("write to a reserved register"),
        }
    }
}
/// None = the VM panics (transaction reverts); Some(regs') otherwise.  `Err(())` = opcode outside the oracle.
pub fn exec(op: &Either<VirtualOp, OrganizationalOp>, s: &Regs, flag: u64, with_pow_log: bool) -> Result<Option<Regs>, ()> {
    use VirtualOp::*;
    let fin = |dst: &VirtualRegister, o: Out| -> Option<Regs> {
        match o { Out::Panic => None, Out::Ok { v, of, err } => { let mut n = *s; n.set(dst, v); n.of = of; n.err = err; Some(n) } }
    };
    let i12 = |i: &VirtualImmediate12| i.value() as u64;
    Ok(match op {
        Either::Left(o) => match o {
            ADD(d, l, r) => fin(d, vm_alu::add(s.get(l), s.get(r), flag)),   ADDI(d, l, i) => fin(d, vm_alu::add(s.get(l), i12(i), flag)),
            SUB(d, l, r) => fin(d, vm_alu::sub(s.get(l), s.get(r), flag)),   SUBI(d, l, i) => fin(d, vm_alu::sub(s.get(l), i12(i), flag)),
            MUL(d, l, r) => fin(d, vm_alu::mul(s.get(l), s.get(r), flag)),   MULI(d, l, i) => fin(d, vm_alu::mul(s.get(l), i12(i), flag)),
            DIV(d, l, r) => fin(d, vm_alu::div(s.get(l), s.get(r), flag)),   DIVI(d, l, i) => fin(d, vm_alu::div(s.get(l), i12(i), flag)),
            MOD(d, l, r) => fin(d, vm_alu::modulo(s.get(l), s.get(r), flag)), MODI(d, l, i) => fin(d, vm_alu::modulo(s.get(l), i12(i), flag)),
            EXP(d, l, r) if with_pow_log => fin(d, vm_alu::exp(s.get(l), s.get(r), flag)),   EXPI(d, l, i) if with_pow_log => fin(d, vm_alu::expi(s.get(l), i12(i), flag)),
            AND(d, l, r) => fin(d, vm_alu::and(s.get(l), s.get(r), flag)),   ANDI(d, l, i) => fin(d, vm_alu::and(s.get(l), i12(i), flag)),
            OR(d, l, r) => fin(d, vm_alu::or(s.get(l), s.get(r), flag)),     ORI(d, l, i) => fin(d, vm_alu::or(s.get(l), i12(i), flag)),
            XOR(d, l, r) => fin(d, vm_alu::xor(s.get(l), s.get(r), flag)),   XORI(d, l, i) => fin(d, vm_alu::xor(s.get(l), i12(i), flag)),
            SLL(d, l, r) => fin(d, vm_alu::sll(s.get(l), s.get(r), flag)),   SLLI(d, l, i) => fin(d, vm_alu::sll(s.get(l), i12(i), flag)),
            SRL(d, l, r) => fin(d, vm_alu::srl(s.get(l), s.get(r), flag)),   SRLI(d, l, i) => fin(d, vm_alu::srl(s.get(l), i12(i), flag)),
            EQ(d, l, r) => fin(d, vm_alu::eq(s.get(l), s.get(r), flag)),
            GT(d, l, r) => fin(d, vm_alu::gt(s.get(l), s.get(r), flag)),
            LT(d, l, r) => fin(d, vm_alu::lt(s.get(l), s.get(r), flag)),
            MLOG(d, l, r) if with_pow_log => fin(d, vm_alu::mlog(s.get(l), s.get(r), flag)),
            NOT(d, a) => fin(d, vm_alu::not(s.get(a), flag)),
            MOVE(d, a) => fin(d, vm_alu::mov(s.get(a))),
            MOVI(d, i) => fin(d, vm_alu::mov(i.value() as u64)),
            NOOP => { let mut n = *s; n.of = 0; n.err = 0; Some(n) }
            _ => return Err(()),
        },
        Either::Right(_) => return Err(()),
    })
}
/// concretisation: every fact of K is true in the register file
pub fn gamma(k: &KnownValues, s: &Regs) -> bool {
    let mut ok = true;
    for (key, val) in k.values.iter() {
        match val { KnownRegValue::Const(c) => ok &= s.get(key) == *c, KnownRegValue::Eq(r) => ok &= s.get(key) == s.get(r) }
    }
    ok
}
fn is_of_err(r: &VirtualRegister) -> bool { matches!(r, VirtualRegister::Constant(ConstantRegister::Overflow) | VirtualRegister::Constant(ConstantRegister::Error)) }
/// invariant carried between iterations: no fact is about, or depends on, $of / $err; $zero/$one are never keys
pub fn inv(k: &KnownValues) -> bool {
    let mut ok = true;
    for (key, val) in k.values.iter() {
        ok &= !is_of_err(key);
        ok &= !matches!(key, VirtualRegister::Constant(ConstantRegister::Zero) | VirtualRegister::Constant(ConstantRegister::One));
        if let KnownRegValue::Eq(r) = val { ok &= !is_of_err(r); }
    }
    ok
}

/// CONTRACT of KnownValues::remove_reg_and_dependents, as an executable heap-free spec function:
/// afterwards the map holds exactly the old facts whose key is not `reg` and which do not depend on `reg`
/// directly or through a chain of Eq facts.  The step harnesses call this through `-Z stubbing`
/// (caller checked against the callee's contract); `remove_refines_contract` proves the real body equal to it.
pub fn spec_remove_reg_and_dependents(kv: &mut KnownValues, reg: &VirtualRegister) {
    fn idx(r: &VirtualRegister) -> usize {
        match r {
            VirtualRegister::Virtual(i) => (*i as usize) % NV,
            VirtualRegister::Constant(ConstantRegister::FuncArg0) => NV,
            VirtualRegister::Constant(ConstantRegister::Zero) => NV + 1,
            VirtualRegister::Constant(ConstantRegister::One) => NV + 2,
            VirtualRegister::Constant(ConstantRegister::Overflow) => NV + 3,
            VirtualRegister::Constant(ConstantRegister::Error) => NV + 4,
            _ => unreachable!(),
        }
    }
    let mut dead = [false; NV + 5];
    dead[idx(reg)] = true;
    let mut round = 0;
    while round + 1 < CAP {   // a dependency chain over CAP keys has at most CAP-1 links
        let mut j = 0;
        while j < CAP {
            let kill = match &kv.values.slots[j] { Some((_, KnownRegValue::Eq(x))) => dead[idx(x)], _ => false };
            if kill { let (k, _) = kv.values.slots[j].take().unwrap(); dead[idx(&k)] = true; std::mem::forget(k); }
            j += 1;
        }
        round += 1;
    }
    let mut j = 0;
    while j < CAP {
        if matches!(&kv.values.slots[j], Some((k, _)) if k == reg) { kv.values.slots[j] = None; }
        j += 1;
    }
}
/// the ops the step harnesses can see before or after a rewrite: ALU class (3-register, immediate, MOVE/MOVI/NOT/NOOP) and Jump
pub fn cheap_defs(op: &Op) -> (Option<VirtualRegister>, bool) {
    use VirtualOp::*;
    match &op.opcode {
        Either::Left(o) => match o {
            ADD(d, ..) | SUB(d, ..) | MUL(d, ..) | DIV(d, ..) | MOD(d, ..) | EXP(d, ..) | MLOG(d, ..) | MROO(d, ..) | AND(d, ..) | OR(d, ..) | XOR(d, ..)
            | SLL(d, ..) | SRL(d, ..) | EQ(d, ..) | GT(d, ..) | LT(d, ..) | ADDI(d, ..) | SUBI(d, ..) | MULI(d, ..) | DIVI(d, ..) | MODI(d, ..)
            | EXPI(d, ..) | ANDI(d, ..) | ORI(d, ..) | XORI(d, ..) | SLLI(d, ..) | SRLI(d, ..) | NOT(d, _) | MOVE(d, _) | MOVI(d, _) => (Some(d.clone()), true),
            NOOP => (None, true),
            _ => unreachable!("opcode outside the ALU class"),
        },
        Either::Right(_) => (None, false),
    }
}
/// CONTRACT of ResetKnown::apply as a spec function over cheap_defs (= what Op::def_registers / def_const_registers
/// return for the ALU class; `apply_refines_contract` proves the real body, with the real BTreeSet-returning tables, equal to it)
pub fn spec_apply(this: &ResetKnown, op: &Op, kv: &mut KnownValues) {
    let of = VirtualRegister::Constant(ConstantRegister::Overflow);
    let err = VirtualRegister::Constant(ConstantRegister::Error);
    spec_remove_reg_and_dependents(kv, &of);
    spec_remove_reg_and_dependents(kv, &err);
    let (d, c) = cheap_defs(op);
    match this {
        ResetKnown::Nothing => {}
        ResetKnown::Defs | ResetKnown::DefsAndNonVirtuals => {
            if let Some(d) = &d { spec_remove_reg_and_dependents(kv, d); }
            if c { spec_remove_reg_and_dependents(kv, &of); spec_remove_reg_and_dependents(kv, &err); }
            if matches!(this, ResetKnown::DefsAndNonVirtuals) {
                let mut j = 0;
                while j < CAP { if matches!(&kv.values.slots[j], Some((k, _)) if !k.is_virtual()) { kv.values.slots[j] = None; } j += 1; }
            }
        }
        ResetKnown::All => { let mut j = 0; while j < CAP { kv.values.slots[j] = None; j += 1; } }
    }
    std::mem::forget(d);
}
/// CONTRACT of VirtualOp::has_side_effect on the ALU class: true iff the destination is a constant (non-virtual) register
pub fn spec_has_side_effect(this: &VirtualOp) -> bool {
    let op = Op { opcode: Either::Left(this.clone()), owning_span: None };
    let (d, _) = cheap_defs(&op);
    let r = matches!(d, Some(VirtualRegister::Constant(_)));
    std::mem::forget(op); std::mem::forget(d);
    r
}
pub fn same_facts(a: &KnownValues, b: &KnownValues) -> bool {
    let mut ok = true;
    for (k, v) in a.values.iter() { ok &= b.values.get(k) == Some(v); }
    for (k, v) in b.values.iter() { ok &= a.values.get(k) == Some(v); }
    ok
}

// =====================================================================================
// hard arithmetic (64-bit mul/div/rem/pow/ilog) under CONTRACT STUBS: both the rule table's std calls
// (u64::checked_mul ...) and the oracle's primitives (vm_alu::prim_*) are replaced, via -Z stubbing, by one
// uninterpreted function per operation that is only known to satisfy the algebraic facts the rules rely on.
// `uf_facts_*` harnesses prove those facts of the real std operations (z3, full domain).
// =====================================================================================
#[cfg(kani)]
pub mod uf {
    pub const MUL: u8 = 0; pub const DIV: u8 = 1; pub const REM: u8 = 2; pub const POW: u8 = 3; pub const ILOG: u8 = 4;
    static mut TAB: [(bool, u8, u64, u64, u64, u64); 6] = [(false, 0, 0, 0, 0, 0); 6];
    /// functional consistency: equal arguments give equal results (MUL is also commutative)
    pub fn call(tag: u8, a: u64, b: u64) -> (u64, u64) {
        unsafe {
            let mut i = 0;
            while i < 6 {
                let e = TAB[i];
                if e.0 && e.1 == tag && ((e.2 == a && e.3 == b) || (tag == MUL && e.2 == b && e.3 == a)) { return (e.4, e.5); }
                i += 1;
            }
            let (x, y): (u64, u64) = (kani::any(), kani::any());
            match tag {
                // (lo, hi) of the 128-bit product
                MUL => { kani::assume(!(a == 0 || b == 0) || (x == 0 && y == 0)); kani::assume(a != 1 || (x == b && y == 0)); kani::assume(b != 1 || (x == a && y == 0)); }
                // quotient / remainder, divisor != 0
                DIV => { kani::assume(b != 1 || x == a); kani::assume(a != 0 || x == 0); }
                REM => { kani::assume(b != 1 || x == 0); kani::assume(a != 0 || x == 0); }
                // (value, overflowed) of a^b, b < 2^32
                POW => { kani::assume(y <= 1); kani::assume(b != 0 || (x == 1 && y == 0)); kani::assume(b != 1 || (x == a && y == 0));
                         kani::assume(!(a == 0 && b != 0) || (x == 0 && y == 0)); kani::assume(a != 1 || (x == 1 && y == 0)); }
                _ => { kani::assume(x < 64); }
            }
            let mut i = 0;
            while i < 6 { if !TAB[i].0 { TAB[i] = (true, tag, a, b, x, y); return (x, y); } i += 1; }
            kani::assume(false); (x, y)
        }
    }
    pub fn checked_mul(a: u64, b: u64) -> Option<u64> { let (lo, hi) = call(MUL, a, b); if hi == 0 { Some(lo) } else { None } }
    pub fn prim_mul128(a: u64, b: u64) -> u128 { let (lo, hi) = call(MUL, a, b); ((hi as u128) << 64) | lo as u128 }
    pub fn checked_div(a: u64, b: u64) -> Option<u64> { if b == 0 { None } else { Some(call(DIV, a, b).0) } }
    pub fn prim_div(a: u64, b: u64) -> u64 { call(DIV, a, b).0 }
    pub fn checked_rem(a: u64, b: u64) -> Option<u64> { if b == 0 { None } else { Some(call(REM, a, b).0) } }
    pub fn prim_rem(a: u64, b: u64) -> u64 { call(REM, a, b).0 }
    pub fn checked_pow(a: u64, e: u32) -> Option<u64> { let (v, o) = call(POW, a, e as u64); if o == 0 { Some(v) } else { None } }
    pub fn prim_pow(a: u64, e: u32) -> (u64, bool) { let (v, o) = call(POW, a, e as u64); (v, o != 0) }
    pub fn checked_ilog(a: u64, b: u64) -> Option<u32> { if a == 0 || b < 2 { None } else { Some(call(ILOG, a, b).0 as u32) } }
    pub fn prim_ilog(a: u64, b: u64) -> u64 { call(ILOG, a, b).0 }
}

#[cfg(kani)]
mod h {
    use super::*;
    fn any_readable() -> VirtualRegister {
        match kani::any::<u8>() % (NV as u8 + 5) {
            0 => VirtualRegister::Constant(ConstantRegister::Zero), 1 => VirtualRegister::Constant(ConstantRegister::One),
            2 => VirtualRegister::Constant(ConstantRegister::Overflow), 3 => VirtualRegister::Constant(ConstantRegister::Error),
            4 => VirtualRegister::Constant(ConstantRegister::FuncArg0),
            n => VirtualRegister::Virtual(n - 5),
        }
    }
    fn any_writable() -> VirtualRegister {
        match kani::any::<u8>() % (NV as u8 + 1) {
            0 => VirtualRegister::Constant(ConstantRegister::FuncArg0),
            n => VirtualRegister::Virtual(n - 1),
        }
    }
    fn any_fact_target() -> VirtualRegister { let r = any_readable(); kani::assume(!super::is_of_err(&r)); r }
    /// an arbitrary abstract state: for each writable register: no fact | Const(any) | Eq(any register but $of/$err)
    fn any_known() -> KnownValues {
        let mut k = KnownValues::default();
        let keys = [VirtualRegister::Virtual(0), VirtualRegister::Virtual(1), VirtualRegister::Constant(ConstantRegister::FuncArg0)];
        let mut i = 0;
        for key in keys {
            match kani::any::<u8>() % 3 {
                0 => {}
                1 => k.values.slots[i] = Some((key, KnownRegValue::Const(kani::any()))),
                _ => k.values.slots[i] = Some((key, KnownRegValue::Eq(any_fact_target()))),
            }
            i += 1;
        }
        k
    }
    fn any_regs() -> Regs { Regs { v: kani::any(), of: kani::any(), err: kani::any(), a0: kani::any() } }
    fn any_flag() -> u64 { let f: u64 = kani::any(); kani::assume(f < 4); f }

    /// the transfer-function soundness obligation for one instruction
    pub fn check(opcode: VirtualOp, with_pow_log: bool) {
        let s = any_regs();
        let mut k = any_known();
        kani::assume(gamma(&k, &s));
        let before: Either<VirtualOp, OrganizationalOp> = Either::Left(opcode);
        let mut op = Op { opcode: before.clone(), owning_span: None };
        let mut labels = FxHashMap::<Label, usize>::default();
        step(&mut op, &mut k, &mut labels);
        let flag = any_flag();
        let o1 = exec(&before, &s, flag, with_pow_log);
        let o2 = exec(&op.opcode, &s, flag, with_pow_log);
        kani::cover!(matches!(o1, Ok(Some(_))));
        assert!(o1.is_ok(), "OB: harness opcode known to the oracle");
        assert!(o2.is_ok(), "OB: rewritten to an opcode outside the ALU oracle");
        let (o1, o2) = (o1.unwrap(), o2.unwrap());
        assert!(o1.is_some() == o2.is_some(), "OB: rewritten instruction panics where the original does not, or vice versa");
        if let (Some(a), Some(b)) = (o1, o2) {
            assert!(a.v[0] == b.v[0] && a.v[1] == b.v[1] && a.a0 == b.a0, "OB: rewritten instruction leaves a different value in a register");
            assert!(a.of == b.of && a.err == b.err, "OB: rewritten instruction leaves different $of/$err");
            assert!(gamma(&k, &a), "OB: a fact kept about a register is false after the instruction");
            assert!(inv(&k), "OB: a fact about or depending on $of/$err survives the instruction");
        }
        std::mem::forget(k); std::mem::forget(op); std::mem::forget(before); std::mem::forget(labels);
    }
    fn reg_of(i: u8) -> VirtualRegister {
        match i { 0 => VirtualRegister::Constant(ConstantRegister::Zero), 1 => VirtualRegister::Constant(ConstantRegister::One),
                  2 => VirtualRegister::Virtual(0), 3 => VirtualRegister::Virtual(1), 4 => VirtualRegister::Constant(ConstantRegister::FuncArg0),
                  5 => VirtualRegister::Constant(ConstantRegister::Overflow), _ => VirtualRegister::Constant(ConstantRegister::Error) }
    }
    /// fact shapes for key number `me` (0..3): none | Const(symbolic) | Eq($zero) | Eq(the two other keys)
    fn fact(shape: u8, me: u8) -> Option<KnownRegValue> {
        match shape { 0 => None, 1 => Some(KnownRegValue::Const(kani::any())), 2 => Some(KnownRegValue::Eq(reg_of(0))),
                      3 => Some(KnownRegValue::Eq(reg_of(2 + (me + 1) % 3))), _ => Some(KnownRegValue::Eq(reg_of(2 + (me + 2) % 3))) }
    }
    /// the real remove_reg_and_dependents (worklist over a heap Vec) equals its contract.  Heap collections of symbolic
    /// length are unaffordable in CBMC (43 GB on the fully symbolic version), so the *shape* of the abstract state is
    /// enumerated concretely: every key has no fact | Const(symbolic) | Eq($zero) | Eq(another key) = 5^3 shapes, and the
    /// removed register is V0, $zero or $of (the function only compares register names for equality, so V0 stands for any key).
    fn remove_refines_contract(s0_fixed: u8) {
        let keys = [VirtualRegister::Virtual(0), VirtualRegister::Virtual(1), VirtualRegister::Constant(ConstantRegister::FuncArg0)];
        let regs = [reg_of(2), reg_of(0), reg_of(5)];
        let mut n: u32 = 0;
        let (mut s0, mut s1, mut s2, mut r) = (s0_fixed, 0u8, 0u8, 0usize);
        while s0 < s0_fixed + 1 { s1 = 0; while s1 < 5 { s2 = 0; while s2 < 5 { r = 0; while r < 3 {
            let mut k0 = KnownValues::default();
            if let Some(f) = fact(s0, 0) { k0.values.slots[0] = Some((keys[0].clone(), f)); }
            if let Some(f) = fact(s1, 1) { k0.values.slots[1] = Some((keys[1].clone(), f)); }
            if let Some(f) = fact(s2, 2) { k0.values.slots[2] = Some((keys[2].clone(), f)); }
            let (mut a, mut b) = (k0.clone(), k0.clone());
            a.remove_reg_and_dependents(&regs[r]);
            spec_remove_reg_and_dependents(&mut b, &regs[r]);
            assert!(same_facts(&a, &b), "OB: remove_reg_and_dependents differs from its contract (facts removed/kept)");
            std::mem::forget(a); std::mem::forget(b); std::mem::forget(k0);
            n += 1;
        r += 1; } s2 += 1; } s1 += 1; } s0 += 1; }
        assert!(n == 75, "OB: enumeration complete");
    }
    fn alu_op(variant: u8, d: VirtualRegister, l: VirtualRegister, r: VirtualRegister) -> VirtualOp {
        use VirtualOp::*;
        let i12 = VirtualImmediate12 { value: 5 };
        match variant {
            0 => ADD(d, l, r), 1 => SUB(d, l, r), 2 => MUL(d, l, r), 3 => DIV(d, l, r), 4 => MOD(d, l, r), 5 => EXP(d, l, r), 6 => MLOG(d, l, r),
            7 => MROO(d, l, r), 8 => AND(d, l, r), 9 => OR(d, l, r), 10 => XOR(d, l, r), 11 => SLL(d, l, r), 12 => SRL(d, l, r), 13 => EQ(d, l, r),
            14 => GT(d, l, r), 15 => LT(d, l, r), 16 => ADDI(d, l, i12), 17 => SUBI(d, l, i12), 18 => MULI(d, l, i12), 19 => DIVI(d, l, i12),
            20 => MODI(d, l, i12), 21 => EXPI(d, l, i12), 22 => ANDI(d, l, i12), 23 => ORI(d, l, i12), 24 => XORI(d, l, i12),
            25 => SLLI(d, l, i12), 26 => SRLI(d, l, i12), 27 => NOT(d, l), 28 => MOVE(d, l), 29 => MOVI(d, VirtualImmediate18 { value: 7 }), _ => NOOP,
        }
    }
    /// register placements (dst, l, r) that distinguish every operand position
    fn placement(p: u8) -> (VirtualRegister, VirtualRegister, VirtualRegister) {
        match p { 0 => (reg_of(2), reg_of(3), reg_of(4)), _ => (reg_of(4), reg_of(2), reg_of(3)) }
    }
    /// contract stub of remove_reg_and_dependents that RECORDS its argument (ghost log) instead of touching the map
    static mut LOG: [u8; 8] = [255; 8];
    static mut LOGN: usize = 0;
    fn idx_of(r: &VirtualRegister) -> u8 { let mut i = 0u8; while i < 7 { if &reg_of(i) == r { return i; } i += 1; } 99 }
    fn recording_remove(_kv: &mut KnownValues, reg: &VirtualRegister) { unsafe { LOG[LOGN] = idx_of(reg); LOGN += 1; } }
    /// ResetKnown::apply, with the real Op::def_registers / def_const_registers tables (BTreeSet), performs exactly the
    /// removals its contract spec_apply performs -- for every ALU-class opcode (enumerated) and every ResetKnown variant
    fn apply_refines_contract(v_lo: u8, v_hi: u8) {
        let (mut v, mut p, mut w) = (v_lo, 0u8, 0u8);
        // Defs for every opcode and both placements; Nothing / DefsAndNonVirtuals (= Defs + retain) / All for two opcodes
        while v < v_hi { p = 0; while p < 2 { w = 0; while w < 4 { if w == 1 || v == 0 || v == 30 {
            let (d, l, r) = placement(p);
            let dst_idx = idx_of(&d);
            let op = Op { opcode: Either::Left(alu_op(v, d, l, r)), owning_span: None };
            let which = match w { 0 => ResetKnown::Nothing, 1 => ResetKnown::Defs, 2 => ResetKnown::DefsAndNonVirtuals, _ => ResetKnown::All };
            let mut k = KnownValues::default();
            k.values.slots[0] = Some((reg_of(2), KnownRegValue::Const(1)));
            k.values.slots[1] = Some((reg_of(4), KnownRegValue::Const(2)));
            unsafe { LOGN = 0; }
            which.apply(&op, &mut k);
            let n = unsafe { LOGN };
            let has_dst = v != 30;
            // expected removal sequence, as a multiset-insensitive check: [of, err] then for Defs*: dst, of, err (def sets are BTreeSets: order by Ord)
            unsafe {
                assert!(LOG[0] == 5 && LOG[1] == 6, "OB: apply must first drop facts about $of and $err");
                match w {
                    0 | 3 => assert!(n == 2, "OB: Nothing/All perform no further removals"),
                    _ => { assert!(n == if has_dst { 5 } else { 4 }, "OB: Defs removes exactly def_registers and def_const_registers");
                           if has_dst { assert!(LOG[2] == dst_idx, "OB: Defs must remove the destination register"); }
                           let o = if has_dst { 3 } else { 2 };
                           assert!((LOG[o] == 5 && LOG[o + 1] == 6) || (LOG[o] == 6 && LOG[o + 1] == 5), "OB: Defs must remove $of and $err"); }
                }
            }
            let left = k.values.iter().count();
            match w { 3 => assert!(left == 0, "OB: All clears every fact"),
                      2 => assert!(left == 1 && k.values.get(&reg_of(2)).is_some(), "OB: DefsAndNonVirtuals keeps exactly the virtual-register facts"),
                      _ => assert!(left == 2, "OB: Nothing/Defs leave other facts to remove_reg_and_dependents") }
            std::mem::forget(k); std::mem::forget(op);
        } w += 1; } p += 1; } v += 1; }
    }
    /// Jump pseudo-ops define nothing: Defs performs only the two leading removals
    #[kani::proof]
    #[kani::unwind(9)]
    #[kani::stub(KnownValues::remove_reg_and_dependents, recording_remove)]
    fn apply_on_jump() {
        let op = Op { opcode: Either::Right(ControlFlowOp::Jump { to: Label(0), type_: JumpType::NotZero(reg_of(2)) }), owning_span: None };
        let mut k = KnownValues::default();
        unsafe { LOGN = 0; }
        ResetKnown::Defs.apply(&op, &mut k);
        unsafe { assert!(LOGN == 2 && LOG[0] == 5 && LOG[1] == 6, "OB: a Jump defines no register"); }
        std::mem::forget(k); std::mem::forget(op);
    }
    fn has_side_effect_refines_contract(v_lo: u8, v_hi: u8) {
        let (mut v, mut p) = (v_lo, 0u8);
        while v < v_hi { p = 0; while p < 2 {
            let (d, l, r) = placement(p);
            let op = alu_op(v, d, l, r);
            assert!(op.has_side_effect() == spec_has_side_effect(&op), "OB: has_side_effect differs from its contract on the ALU class");
            std::mem::forget(op);
        p += 1; } v += 1; }
    }
    fn def_tables_check() {
        let (mut v, mut p) = (0u8, 0u8);
        while v < 31 { p = 0; while p < 2 {
            let (d, l, r) = placement(p);
            let dd = d.clone();
            let op = alu_op(v, d, l, r);
            let t = op.def_registers_table();
            if v == 30 { assert!(t.len() == 0, "OB: NOOP defines no register"); }
            else { assert!(t.len() == 1 && *t[0] == dd, "OB: an ALU-class op defines exactly its destination register"); }
            let c = op.def_const_registers_table();
            assert!(c.len() == 2 && ((is_of(c[0]) && is_err(c[1])) || (is_of(c[1]) && is_err(c[0]))), "OB: an ALU-class op defines $of and $err");
            std::mem::forget(t); std::mem::forget(c); std::mem::forget(op); std::mem::forget(dd);
        p += 1; } v += 1; }
    }
    fn is_of(r: &VirtualRegister) -> bool { matches!(r, VirtualRegister::Constant(ConstantRegister::Overflow)) }
    fn is_err(r: &VirtualRegister) -> bool { matches!(r, VirtualRegister::Constant(ConstantRegister::Error)) }
    /// the `JNZ reg LABEL` rewrite: NOOP iff the register is zero, unconditional jump iff it is non-zero, otherwise the same
    /// test on an equal register; the jump-target count of the label is decremented exactly when the jump disappears
    pub fn check_jnz() {
        let s = any_regs();
        // the rewrite only looks at what is known about the tested register: one symbolic fact about V0 (none | Const | Eq)
        let mut k = KnownValues::default();
        match kani::any::<u8>() % 3 {
            0 => {}
            1 => k.values.slots[0] = Some((VirtualRegister::Virtual(0), KnownRegValue::Const(kani::any()))),
            _ => k.values.slots[0] = Some((VirtualRegister::Virtual(0), KnownRegValue::Eq(any_fact_target()))),
        }
        kani::assume(gamma(&k, &s));
        let reg = match kani::any::<u8>() % 4 { 0 => VirtualRegister::Constant(ConstantRegister::Zero), 1 => VirtualRegister::Constant(ConstantRegister::One),
                                                2 => VirtualRegister::Virtual(1), _ => VirtualRegister::Virtual(0) };
        let cnt: usize = if kani::any() { 1 } else { 2 };
        let other: usize = 1;
        let mut labels = FxHashMap::<Label, usize>::default();
        labels.slots[0] = Some((Label(7), cnt));
        labels.slots[1] = Some((Label(9), other));
        let had_other = true;
        let mut op = Op { opcode: Either::Right(ControlFlowOp::Jump { to: Label(7), type_: JumpType::NotZero(reg.clone()) }), owning_span: None };
        step(&mut op, &mut k, &mut labels);
        let rv = s.get(&reg);
        kani::cover!(matches!(op.opcode, Either::Left(VirtualOp::NOOP)));
        let mut removed = false;
        match &op.opcode {
            Either::Left(VirtualOp::NOOP) => { removed = true; assert!(rv == 0, "OB: conditional jump removed although its register is not zero"); }
            Either::Right(ControlFlowOp::Jump { to, type_: JumpType::Unconditional }) => { assert!(rv != 0 && *to == Label(7), "OB: conditional jump made unconditional although its register is zero"); }
            Either::Right(ControlFlowOp::Jump { to, type_: JumpType::NotZero(r2) }) => { assert!(*to == Label(7) && s.get(r2) == rv, "OB: jump condition moved to a register with a different value"); }
            _ => assert!(false, "OB: JNZ rewritten to something else"),
        }
        let want = if removed { if cnt > 1 { Some(cnt - 1) } else { None } } else { Some(cnt) };
        assert!(labels.get(&Label(7)).copied() == want, "OB: jump-target bookkeeping: the label must stay a join point while another jump targets it");
        assert!(labels.get(&Label(9)).copied() == if had_other { Some(other) } else { None }, "OB: jump-target bookkeeping touched another label");
        // control-flow pseudo-ops leave general registers alone and may clobber $of/$err
        let mut s2 = s; s2.of = kani::any(); s2.err = kani::any();
        assert!(gamma(&k, &s2), "OB: a fact kept about a register is false after the jump");
        assert!(inv(&k), "OB: a fact about or depending on $of/$err survives the jump");
        std::mem::forget(k); std::mem::forget(op); std::mem::forget(labels); std::mem::forget(reg);
    }
    // ---- facts assumed of the uninterpreted arithmetic, proved here of the real std operations (simple harnesses, z3) ----
    #[kani::proof] #[kani::solver(z3)]
    fn uf_facts_mul() {
        let (a, b): (u64, u64) = (kani::any(), kani::any());
        let p = vm_alu::prim_mul128(a, b);
        let (lo, hi) = (p as u64, (p >> 64) as u64);
        assert!(u64::checked_mul(a, b) == if hi == 0 { Some(lo) } else { None }, "OB: checked_mul == (hi == 0).then(lo) of the 128-bit product");
        assert!(vm_alu::prim_mul128(b, a) == p, "OB: product commutes");
        if a == 0 || b == 0 { assert!(p == 0, "OB: x*0 == 0"); }
        if a == 1 { assert!(p == b as u128, "OB: 1*x == x"); }
    }
    #[kani::proof]
    fn uf_facts_div_rem() {
        let a: u64 = kani::any();
        assert!(vm_alu::prim_div(a, 1) == a && vm_alu::prim_rem(a, 1) == 0, "OB: x/1 == x, x%1 == 0");
        assert!(u64::checked_div(a, 1) == Some(a) && u64::checked_rem(a, 1) == Some(0), "OB: checked x/1, x%1");
        assert!(u64::checked_div(a, 0).is_none() && u64::checked_rem(a, 0).is_none(), "OB: zero divisor gives None");
    }
    #[kani::proof] #[kani::solver(z3)]
    fn uf_facts_div_zero_left() {
        let b: u64 = kani::any();
        kani::assume(b != 0);
        assert!(vm_alu::prim_div(0, b) == 0 && vm_alu::prim_rem(0, b) == 0, "OB: 0/x == 0, 0%x == 0");
        assert!(u64::checked_div(0, b) == Some(0) && u64::checked_rem(0, b) == Some(0), "OB: checked 0/x, 0%x");
    }
    #[kani::proof] #[kani::unwind(34)]
    fn uf_facts_pow() {
        let a: u64 = kani::any();
        let e: u32 = kani::any();
        assert!(vm_alu::prim_pow(a, 0) == (1, false) && u64::checked_pow(a, 0) == Some(1), "OB: x^0 == 1");
        assert!(vm_alu::prim_pow(a, 1) == (a, false) && u64::checked_pow(a, 1) == Some(a), "OB: x^1 == x");
        assert!(vm_alu::prim_pow(1, e) == (1, false) && u64::checked_pow(1, e) == Some(1), "OB: 1^e == 1");
        if e != 0 { assert!(vm_alu::prim_pow(0, e) == (0, false) && u64::checked_pow(0, e) == Some(0), "OB: 0^e == 0 for e > 0"); }
    }
    @HARNESSES@
}
