"""C14 unit: integer-range algebra of match exhaustiveness (analysis/range.rs), verbatim, against set semantics."""
import re
import vf

RF = "sway-core/src/semantic_analysis/ast_node/expression/match_expression/analysis/range.rs"

ENV = r'''
#![allow(unused, dead_code, clippy::all)]
use std::{cmp::Ordering, fmt::{self, Write}, ops::Sub};
use itertools::Itertools;
// ---------------- environment (message carriers) ----------------
#[derive(Clone, Debug)] pub struct Span;
#[derive(Debug)] pub enum CompileError { Internal(&'static str, Span) }
#[derive(Debug, Clone, Copy)] pub struct ErrorEmitted;
pub struct Handler;
impl Handler { pub fn emit_err(&self, _e: CompileError) -> ErrorEmitted { std::mem::forget(_e); ErrorEmitted } }
// ---------------- extracted verbatim from range.rs ----------------
@MyMath@
@impl_u8@
@impl_u64@
@impl_u16@
@impl_u32@
#[derive(Clone, Debug, PartialEq, Eq)]
@Range@
@impl_Range@

// ---------------- Pattern::from_literal (pattern.rs) with the real Literal enum (language/literal.rs) ----------------
pub mod span { #[derive(Clone, Debug, PartialEq, Eq)] pub struct Span; impl Span { pub fn as_str(&self) -> &str { "" } } }
/// shim of sway_types::U256: value as two 128-bit halves; TryFrom<U256> for u64 fails above u64::MAX like the real one
#[derive(Clone, Copy, Debug, PartialEq, Eq)] pub struct U256 { pub hi: u128, pub lo: u128 }
impl TryFrom<U256> for u64 { type Error = (); fn try_from(v: U256) -> Result<u64, ()> { if v.hi == 0 && v.lo <= u64::MAX as u128 { Ok(v.lo as u64) } else { Err(()) } } }
#[derive(Clone, Debug, PartialEq, Eq)] pub struct StructPattern;
#[derive(Clone, Debug, PartialEq, Eq)] pub struct EnumPattern;
#[derive(Clone, Debug, PartialEq, Eq)] pub struct PatStack;
#[derive(Debug, Clone, PartialEq, Eq)]
@Literal@
#[derive(Clone, Debug, PartialEq, Eq)]
@Pattern@
impl Pattern {
    @from_literal@
}

#[cfg(kani)]
mod h {
    use super::*;
    /// an integer literal x of width w becomes the w-tagged point range [x, x]; bool and b256 are kept
    #[kani::proof]
    fn from_literal_value() {
        let which: u8 = kani::any();
        kani::assume(which < 7);
        let x: u64 = kani::any();
        let lit = match which { 0 => Literal::U8(x as u8), 1 => Literal::U16(x as u16), 2 => Literal::U32(x as u32), 3 => Literal::U64(x),
                                4 => Literal::U256(U256 { hi: 0, lo: x as u128 }), 5 => Literal::Numeric(x), _ => Literal::Boolean(x & 1 == 1) };
        let p = Pattern::from_literal(lit);
        let ok = match (which, &p) {
            (0, Pattern::U8(r)) => r.first == x as u8 && r.last == x as u8, (1, Pattern::U16(r)) => r.first == x as u16 && r.last == x as u16,
            (2, Pattern::U32(r)) => r.first == x as u32 && r.last == x as u32, (3, Pattern::U64(r)) => r.first == x && r.last == x,
            (4, Pattern::U64(r)) => r.first == x && r.last == x, (5, Pattern::Numeric(r)) => r.first == x && r.last == x,
            (6, Pattern::Boolean(b)) => *b == (x & 1 == 1), _ => false };
        assert!(ok, "OB: a literal pattern must become the point range of its own value, tagged with its own width");
        std::mem::forget(p);
    }
    /// totality: no literal the parser can produce makes the analysis panic
    #[kani::proof]
    fn from_literal_u256_total() {
        let p = Pattern::from_literal(Literal::U256(U256 { hi: kani::any(), lo: kani::any() }));
        std::mem::forget(p);
    }
    fn inside<T: PartialOrd>(v: &T, first: &T, last: &T) -> bool { first <= v && v <= last }
    macro_rules! leaf { ($T:ty, $ov:ident, $w1:ident, $enc:ident, $join:ident) => {
        #[kani::proof] fn $ov() {
            let (a, b) = (Range::<$T> { first: kani::any(), last: kani::any() }, Range::<$T> { first: kani::any(), last: kani::any() });
            kani::assume(a.first <= a.last && b.first <= b.last);
            let v: $T = kani::any();
            let r = a.overlaps(&b);
            if inside(&v, &a.first, &a.last) && inside(&v, &b.first, &b.last) { assert!(r, "OB: ranges sharing a value must overlap"); }
            if r { let w = if a.first > b.first { a.first } else { b.first }; assert!(inside(&w, &a.first, &a.last) && inside(&w, &b.first, &b.last), "OB: overlapping ranges share a value"); }
        }
        #[kani::proof] fn $w1() {
            let (a, b) = (Range::<$T> { first: kani::any(), last: kani::any() }, Range::<$T> { first: kani::any(), last: kani::any() });
            kani::assume(a.first <= a.last && b.first <= b.last);
            let r = a.within_one(&b);
            let adjacent = (a.last < b.first && b.first - a.last == 1) || (b.last < a.first && a.first - b.last == 1);
            assert!(r == adjacent, "OB: within_one <=> disjoint and adjacent");
        }
        #[kani::proof] fn $enc() {
            let (a, b) = (Range::<$T> { first: kani::any(), last: kani::any() }, Range::<$T> { first: kani::any(), last: kani::any() });
            kani::assume(a.first <= a.last && b.first <= b.last);
            let v: $T = kani::any();
            let r = a.encompasses(&b);
            if r && inside(&v, &b.first, &b.last) { assert!(inside(&v, &a.first, &a.last), "OB: encompasses => subset"); }
            if !r { assert!(!inside(&b.first, &a.first, &a.last) || !inside(&b.last, &a.first, &a.last), "OB: not encompasses => an end point is outside"); }
        }
        #[kani::proof] fn $join() {
            let (a, b) = (Range::<$T> { first: kani::any(), last: kani::any() }, Range::<$T> { first: kani::any(), last: kani::any() });
            kani::assume(a.first <= a.last && b.first <= b.last);
            let v: $T = kani::any();
            let joinable = a.overlaps(&b) || a.within_one(&b);
            match Range::join_ranges(&Handler, &a, &b, &Span) {
                Ok(r) => { assert!(joinable, "OB: join succeeds only on overlapping or adjacent ranges");
                           assert!(r.first <= r.last, "OB: join is a valid range");
                           assert!(inside(&v, &r.first, &r.last) == (inside(&v, &a.first, &a.last) || inside(&v, &b.first, &b.last)), "OB: join denotes the union"); }
                Err(_) => assert!(!joinable, "OB: join fails only on separated ranges"),
            }
        }
    } }
    leaf!(u8, overlaps_u8, within_one_u8, encompasses_u8, join_u8);
    leaf!(u64, overlaps_u64, within_one_u64, encompasses_u64, join_u64);

    fn point() -> Range<u8> { let x: u8 = kani::any(); Range::from_single(x) }
    fn in_any(v: u8, rs: &[Range<u8>]) -> bool { let mut r = false; for x in rs { r |= x.first <= v && v <= x.last; } r }
    fn well_formed(rs: &[Range<u8>]) -> bool {
        let mut ok = true; let mut i = 0;
        while i < rs.len() { ok &= rs[i].first <= rs[i].last; if i + 1 < rs.len() { ok &= rs[i].last < rs[i + 1].first && rs[i + 1].first - rs[i].last > 1; } i += 1; }
        ok
    }
    @COLL@
}
'''

COLL = r'''
    #[kani::proof] #[kani::unwind(@UNW@)]
    fn condense_@N@() {
        let gs: Vec<Range<u8>> = vec![@POINTS@];
        let v: u8 = kani::any();
        let want = in_any(v, &gs);
        match Range::condense_ranges(&Handler, gs, &Span) {
            Ok(rs) => { assert!(well_formed(&rs), "OB: condensed ranges are valid, ascending, disjoint and non-adjacent");
                        assert!(in_any(v, &rs) == want, "OB: condensing preserves the set of covered values"); std::mem::forget(rs); }
            Err(_) => assert!(false, "OB: condense fails only on an empty list"),
        }
    }
    #[kani::proof] #[kani::unwind(@UNW@)]
    fn exclusionary_@N@() {
        let gs: Vec<Range<u8>> = vec![@POINTS@];
        let o = Range::<u8> { first: kani::any(), last: kani::any() };
        kani::assume(o.first <= o.last);
        let v: u8 = kani::any();
        let covered = in_any(v, &gs);
        let mut all_in = true; for g in gs.iter() { all_in &= o.first <= g.first && g.last <= o.last; }
        let in_o = o.first <= v && v <= o.last;
        kani::cover!(all_in);
        match Range::find_exclusionary_ranges(&Handler, gs, o, &Span) {
            Ok(xs) => { assert!(all_in, "OB: guides outside the oracle must be rejected");
                        let mut valid = true; for x in xs.iter() { valid &= x.first <= x.last; }
                        assert!(valid, "OB: every reported witness range is a valid range");
                        assert!(in_any(v, &xs) == (in_o && !covered), "OB: witnesses are exactly the uncovered values of the oracle"); std::mem::forget(xs); }
            Err(_) => assert!(!all_in, "OB: internal error although every guide lies inside the oracle"),
        }
    }
    #[kani::proof] #[kani::unwind(@UNW@)]
    fn equal_range_@N@() {
        let gs: Vec<Range<u8>> = vec![@POINTS@];
        let o = Range::<u8> { first: kani::any(), last: kani::any() };
        kani::assume(o.first <= o.last);
        let mut all_in = true; for g in gs.iter() { all_in &= o.first <= g.first && g.last <= o.last; }
        kani::assume(all_in);
        let v: u8 = kani::any();
        let covered = in_any(v, &gs);
        let in_o = o.first <= v && v <= o.last;
        match Range::do_ranges_equal_range(&Handler, gs, o, &Span) {
            Ok(true) => assert!(covered == in_o, "OB: reported exhaustive although some value of the oracle is uncovered"),
            Ok(false) => {}
            Err(_) => assert!(false, "OB: internal error on a non-empty list"),
        }
    }
    #[kani::proof] #[kani::unwind(@UNW@)]
    fn equal_range_complete_@N@() {
        // exhaustive <= reported: if the guides cover the whole oracle the answer must be true (oracle of at most N values)
        let gs: Vec<Range<u8>> = vec![@POINTS@];
        let o = Range::<u8> { first: kani::any(), last: kani::any() };
        kani::assume(o.first <= o.last && o.last - o.first < @N@);
        let mut all_in = true; for g in gs.iter() { all_in &= o.first <= g.first && g.last <= o.last; }
        kani::assume(all_in);
        let mut full = true; let mut k = 0u8; while k < @N@ { if k <= o.last - o.first { full &= in_any(o.first + k, &gs); } k += 1; }
        let r = Range::do_ranges_equal_range(&Handler, gs, o, &Span);
        if full { assert!(matches!(r, Ok(true)), "OB: every value is covered but the match is reported non-exhaustive"); }
    }
'''


def build(tier):
    PF = "sway-core/src/semantic_analysis/ast_node/expression/match_expression/analysis/pattern.rs"
    specs = [
        {"id": "Literal", "file": "sway-core/src/language/literal.rs", "locator": {"kind": "item", "item": "enum", "name": "Literal", "attrs": "strip"}},
        {"id": "Pattern", "file": PF, "locator": {"kind": "item", "item": "enum", "name": "Pattern", "attrs": "strip"}},
        {"id": "from_literal", "file": PF, "locator": {"kind": "impl_fn", "self_ty": "Pattern", "name": "from_literal", "trait": "-"}},
        {"id": "MyMath", "file": RF, "locator": {"kind": "item", "item": "trait", "name": "MyMath"}},
        {"id": "impl_u8", "file": RF, "locator": {"kind": "impl", "self_ty": "u8", "trait": "MyMath<u8>"}},
        {"id": "impl_u64", "file": RF, "locator": {"kind": "impl", "self_ty": "u64", "trait": "MyMath<u64>"}},
        {"id": "impl_u16", "file": RF, "locator": {"kind": "impl", "self_ty": "u16", "trait": "MyMath<u16>"}},
        {"id": "impl_u32", "file": RF, "locator": {"kind": "impl", "self_ty": "u32", "trait": "MyMath<u32>"}},
        {"id": "Range", "file": RF, "locator": {"kind": "item", "item": "struct", "name": "Range", "attrs": "strip"}},
        {"id": "impl_Range", "file": RF, "locator": {"kind": "impl", "self_ty": "Range<T>", "trait": "-"}},
    ]
    fr = vf.extract(specs)
    src = ENV
    for k in fr:
        src = src.replace("@%s@" % k, re.sub(r"^pub\(crate\) ", "pub ", fr[k]["text"]))
    obs = [vf.Ob("from_literal_value", "C14", panic_prop="C17", what="Pattern::from_literal: an integer literal of width w becomes the w-tagged point range [x, x] (the precondition of the range algebra below)"),
           vf.Ob("from_literal_u256_total", "C14", panic_prop="C17", known="D5", what="Pattern::from_literal never panics on a u256 literal")]
    for T in ("u8", "u64"):
        for n, w in (("overlaps", "overlaps <=> the ranges share a value"), ("within_one", "within_one <=> disjoint and adjacent"),
                     ("encompasses", "encompasses <=> subset"), ("join", "join_ranges denotes the union, fails exactly on separated ranges")):
            obs.append(vf.Ob("%s_%s" % (n, T), "C14", panic_prop="C17", what="Range<%s>::%s for all valid ranges" % (T, w)))
    coll = ""
    ns = (1, 2) if tier == "quick" else (1, 2, 3)
    for n in ns:
        coll += COLL.replace("@N@", str(n)).replace("@POINTS@", ", ".join(["point()"] * n)).replace("@UNW@", str(n + 3))
        b = "%d point guides (every literal pattern is a point range: Pattern::from_literal), oracle any valid u8 range, membership checked for a symbolic value" % n
        obs.append(vf.Ob("condense_%d" % n, "C14", complete=False, bound=b, panic_prop="C17", what="condense_ranges: ascending, disjoint, non-adjacent, same set of values"))
        obs.append(vf.Ob("exclusionary_%d" % n, "C14", complete=False, bound=b, panic_prop="C17", what="find_exclusionary_ranges: the witnesses are exactly the values of the oracle no guide covers; Err iff a guide is outside the oracle"))
        obs.append(vf.Ob("equal_range_%d" % n, "C14", complete=False, bound=b, panic_prop="C17", what="do_ranges_equal_range: true only if every value of the oracle is covered"))
        obs.append(vf.Ob("equal_range_complete_%d" % n, "C14", complete=False, bound=b + "; oracle of at most %d values" % n, panic_prop="C17", what="do_ranges_equal_range: true whenever every value of the oracle is covered"))
    src = src.replace("@COLL@", coll)
    u = vf.KaniUnit("c14_ranges", {"src/lib.rs": src}, obs, deps={"itertools": "0.13"}, timeout_s=1800 if tier == "quick" else 3600, jobs=6, auto_files=[RF])
    u.fragments = [vf.frag_record(fr[k]) for k in fr]
    u.rewrites = [{"rule": "R0", "before": "whole impl<T> Range<T>, MyMath impls", "after": "verbatim", "times": 5}]
    u.assumptions = ["Handler/ErrorEmitted/CompileError::Internal/Span are message carriers",
                     "call-site precondition: every guide is a point range [x, x] (Pattern::from_literal is the only producer of ranges reaching ConstructorFactory)",
                     "unverified: usefulness recursion, constructor completeness for enums/bools/tuples/structs, or-pattern flattening, matcher.rs desugaring"]
    u.heavy = True
    return [u]
