"""C13/C17 unit: FuelAsmBuilder::immediate_to_reg -- how lengths, offsets and addresses of configurables are materialised."""
import vf

FB = "sway-core/src/asm_generation/fuel/fuel_asm_builder.rs"
VI = "sway-core/src/asm_lang/virtual_immediate.rs"
CC = "sway-core/src/asm_generation/fuel/compiler_constants.rs"

ENV = r'''
#![allow(unused, dead_code, clippy::all)]
// ---------------- environment ----------------
#[derive(Clone, Debug, PartialEq)] pub struct Span;
impl Span { pub fn dummy() -> Span { Span } }
#[derive(Debug)] pub enum CompileError { Immediate12TooLarge { val: u64, span: Span }, Immediate18TooLarge { val: u64, span: Span } }
#[derive(Clone, Debug, PartialEq)] pub struct VirtualRegister(pub u8);
#[derive(Clone, Debug, PartialEq)] pub struct DataId(pub usize);
#[derive(Clone, Debug)] pub enum VirtualOp { ADDI(VirtualRegister, VirtualRegister, VirtualImmediate12), MOVI(VirtualRegister, VirtualImmediate18),
                                             ADD(VirtualRegister, VirtualRegister, VirtualRegister), LoadDataId(VirtualRegister, DataId) }
pub enum Either<L, R> { Left(L), Right(R) }
pub struct Op { pub opcode: Either<VirtualOp, ()>, pub comment: String, pub owning_span: Option<Span> }
pub enum EntryName { NonConfigurable }
pub struct Entry(pub u64);
impl Entry { pub fn new_word(value: u64, _name: EntryName, _padding: Option<()>) -> Entry { Entry(value) } }
/// shim of DataSection: words by index
pub struct DataSection { pub words: Vec<u64> }
impl DataSection { pub fn insert_data_value(&mut self, e: Entry) -> DataId { self.words.push(e.0); DataId(self.words.len() - 1) } }
pub mod compiler_constants {
    @EIGHTEEN_BITS@
    @TWELVE_BITS@
}
// ---------------- extracted verbatim ----------------
#[derive(Clone, Debug)]
@VirtualImmediate12@
#[derive(Clone, Debug)]
@VirtualImmediate18@
impl VirtualImmediate12 {
    @imm12_try_new@
    @imm12_new@
    @imm12_value@
}
impl VirtualImmediate18 {
    @imm18_try_new@
    @imm18_new@
    @imm18_value@
}
/// shim of FuelAsmBuilder: the two fields immediate_to_reg touches
pub struct Builder { pub cur_bytecode: Vec<Op>, pub data_section: DataSection }
impl Builder {
    @immediate_to_reg@
}
#[cfg(kani)]
mod h {
    use super::*;
    /// run the emitted instructions on a 3-register file (default flags: ADD/ADDI panic on overflow)
    fn exec(b: &Builder, regs: &mut [u64; 3]) -> bool {
        let mut i = 0;
        while i < b.cur_bytecode.len() {
            match &b.cur_bytecode[i].opcode {
                Either::Left(VirtualOp::ADDI(d, a, imm)) => match regs[a.0 as usize].checked_add(imm.value() as u64) { Some(v) => regs[d.0 as usize] = v, None => return false },
                Either::Left(VirtualOp::MOVI(d, imm)) => regs[d.0 as usize] = imm.value() as u64,
                Either::Left(VirtualOp::ADD(d, a, c)) => match regs[a.0 as usize].checked_add(regs[c.0 as usize]) { Some(v) => regs[d.0 as usize] = v, None => return false },
                Either::Left(VirtualOp::LoadDataId(d, id)) => regs[d.0 as usize] = b.data_section.words[id.0],
                _ => return false,
            }
            i += 1;
        }
        true
    }
    #[kani::proof] #[kani::unwind(4)]
    fn immediate_to_reg_value() {
        let imm: u64 = kani::any();
        let base_val: u64 = kani::any();
        let with_base: bool = kani::any();
        kani::assume(base_val.checked_add(imm).is_some());
        let mut b = Builder { cur_bytecode: Vec::new(), data_section: DataSection { words: Vec::new() } };
        let base = VirtualRegister(1);
        b.immediate_to_reg(imm, VirtualRegister(0), if with_base { Some(&base) } else { None }, "", None);
        let mut regs = [kani::any(), base_val, kani::any()];
        let ok = exec(&b, &mut regs);
        kani::cover!(b.cur_bytecode.len() == 1);
        kani::cover!(b.cur_bytecode.len() == 2);
        assert!(ok, "OB: the emitted instructions panic although base + imm fits");
        assert!(regs[0] == if with_base { base_val + imm } else { imm }, "OB: the register does not end up holding base + imm");
        assert!(regs[1] == base_val, "OB: the base register is clobbered");
        std::mem::forget(b);
    }
}
'''


def build(tier):
    def ifn(ty, name, f):
        return {"id": None, "file": f, "locator": {"kind": "impl_fn", "self_ty": ty, "name": name, "trait": "-"}}
    specs = [
        dict(ifn("FuelAsmBuilder<'ir, 'eng>", "immediate_to_reg", FB), id="immediate_to_reg"),
        {"id": "VirtualImmediate12", "file": VI, "locator": {"kind": "item", "item": "struct", "name": "VirtualImmediate12", "attrs": "strip"}},
        {"id": "VirtualImmediate18", "file": VI, "locator": {"kind": "item", "item": "struct", "name": "VirtualImmediate18", "attrs": "strip"}},
        dict(ifn("VirtualImmediate12", "try_new", VI), id="imm12_try_new"), dict(ifn("VirtualImmediate12", "new", VI), id="imm12_new"), dict(ifn("VirtualImmediate12", "value", VI), id="imm12_value"),
        dict(ifn("VirtualImmediate18", "try_new", VI), id="imm18_try_new"), dict(ifn("VirtualImmediate18", "new", VI), id="imm18_new"), dict(ifn("VirtualImmediate18", "value", VI), id="imm18_value"),
        {"id": "EIGHTEEN_BITS", "file": CC, "locator": {"kind": "item", "item": "const", "name": "EIGHTEEN_BITS"}},
        {"id": "TWELVE_BITS", "file": CC, "locator": {"kind": "item", "item": "const", "name": "TWELVE_BITS"}},
    ]
    fr = vf.extract(specs)
    src = ENV
    for k in fr:
        t = fr[k]["text"]
        if k in ("EIGHTEEN_BITS", "TWELVE_BITS"):
            t = t.replace("pub(crate)", "pub")
        if k == "immediate_to_reg":
            t = t.replace("pub(super) fn", "pub fn")
        src = src.replace("@%s@" % k, t)
    obs = [vf.Ob("immediate_to_reg_value", "C13", panic_prop="C17",
                 what="immediate_to_reg(imm, reg, base): for every u64 immediate the emitted ADDI | MOVI(+ADD) | data-section load(+ADD) leaves reg == base + imm and never panics (no immediate is constructed out of range)")]
    u = vf.KaniUnit("c13_imm", {"src/lib.rs": src}, obs, timeout_s=900, jobs=2, auto_files=[FB, VI])
    u.fragments = [vf.frag_record(fr[k]) for k in fr]
    u.rewrites = [{"rule": "R1", "before": "pub(super)/pub(crate)", "after": "pub", "times": 3}]
    u.assumptions = ["FuelAsmBuilder reduced to {cur_bytecode, data_section}; DataSection shimmed as a word list; Op/VirtualOp reduced to the four opcodes the function emits",
                     "call sites (compile_configurable, compile_get_config) pass the encoded length / global offset / address through this function (read, not contracted)"]
    return [u]
