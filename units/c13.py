"""C13 units: data-section layout arithmetic and the configurables-offset patch (partial, see DESIGN 2/C13)."""
import vf

DS = "sway-core/src/asm_generation/fuel/data_section.rs"

ENV = r'''
#![allow(unused, dead_code, clippy::all)]
use std::fmt;
// ---------------- environment ----------------
pub type FxHashMap<K, V> = std::marker::PhantomData<(K, V)>;   // pointer_id is not read by the functions under contract
pub struct CompiledBytecode { pub bytecode: Vec<u8> }          // shim: the one field set_bytecode_configurables_offset touches
// ---------------- extracted verbatim ----------------
@round_up@
@PRELUDE_CONFIGURABLES_SIZE_IN_BYTES@
@PRELUDE_CONFIGURABLES_OFFSET_IN_BYTES@
@set_off@
#[derive(Clone, Debug, PartialEq, Eq)]
@Padding@
@Padding_impl@
#[derive(Clone, Debug, PartialEq, Eq)]
@EntryName@
#[derive(Clone, Debug)]
@Entry@
#[derive(Clone, Debug)]
@Datum@
impl Entry {
    @to_bytes@
    @equiv@
}
#[derive(Clone, Debug)]
@DataIdEntryKind@
#[derive(Clone, Debug)]
@DataId@
#[derive(Clone, Debug)]
@DataSection@
impl DataSection {
    @num_entries@
    @iter_all_entries@
    @absolute_idx@
    @get@
    @data_id_to_offset@
    @absolute_idx_to_offset@
    @serialize_to_bytes@
    @insert_data_value@
}

#[cfg(kani)]
mod h {
    use super::*;
    /// inductive step of the layout, for every offset and entry length: the next offset is the least multiple of 8 that fits
    #[kani::proof]
    fn round_up_step() {
        let (off, len): (usize, usize) = (kani::any(), kani::any());
        kani::assume(off % 8 == 0 && off < (1usize << 48) && len < (1usize << 48));
        let next = size_bytes_round_up_to_word_alignment!(off + len);
        assert!(next % 8 == 0 && next >= off + len && next - (off + len) < 8, "OB: next offset is the word-aligned end of the entry");
    }
    /// a configurable's absolute index is its index plus the number of non-configurables (what finalized_asm adds when it reports ABI offsets)
    #[kani::proof]
    fn absolute_idx_of_configurable() {
        let (n, m): (usize, usize) = (kani::any::<u8>() as usize % 3, kani::any::<u8>() as usize % 3);
        let e = Entry { value: Datum::Word(0), padding: Padding::Right { target_size: 8 }, name: EntryName::NonConfigurable };
        let mut ds = DataSection { non_configurables: vec![], configurables: vec![], pointer_id: Default::default() };
        let mut i = 0; while i < 2 { if i < n { ds.non_configurables.push(e.clone()); } if i < m { ds.configurables.push(e.clone()); } i += 1; }
        let idx: u32 = kani::any();
        kani::assume(idx < 1000);
        assert!(ds.absolute_idx(&DataId { idx, kind: DataIdEntryKind::Configurable }) == idx as usize + n, "OB: configurable j sits at absolute index j + #non-configurables");
        assert!(ds.absolute_idx(&DataId { idx, kind: DataIdEntryKind::NonConfigurable }) == idx as usize, "OB: non-configurable i sits at absolute index i");
        std::mem::forget(ds); std::mem::forget(e);
    }
    @OFFS@
    @STEP@
    @LAYOUT@
    @POOL@
}
'''

POOL = r'''
    /// constant pooling: two entries may share one data-section slot (Entry::equiv) only if they have the same LAYOUT --
    /// equal element values do not imply equal bytes: paddings differ between arrays, structs and enums.
    /// (Stated on equiv itself; calling to_bytes on both sides does not finish in CBMC: iterator chains over heap Vecs.)
    #[kani::proof] #[kani::unwind(4)]
    fn pool_@NAME@() {
        let (x, y): (u8, u8) = (kani::any(), kani::any());
        let present = @PRESENT@;
        let new = @NEW@;
        let merged = present.equiv(&new);
        kani::cover!(true);
        assert!(merged == @SAME@, "OB: constants with different layouts (paddings) are pooled into one data-section entry, or identical ones are not");
        std::mem::forget(present); std::mem::forget(new);
    }
'''


OFFS = r'''
    /// patching the configurables offset writes exactly bytes [16, 24) and nothing else
    #[kani::proof] #[kani::unwind(@U@)]
    fn set_offset_len@L@() {
        let orig: [u8; @L@] = kani::any();
        let md: [u8; 8] = kani::any();
        let mut bc = CompiledBytecode { bytecode: orig.to_vec() };
        set_bytecode_configurables_offset(&mut bc, &md);
        let i: usize = kani::any();
        kani::assume(i < @L@);
        assert!(bc.bytecode.len() == @L@, "OB: length unchanged");
        if i >= 16 && i < 24 { assert!(bc.bytecode[i] == md[i - 16], "OB: bytes 16..24 hold the new offset"); }
        else { assert!(bc.bytecode[i] == orig[i], "OB: every other byte is unchanged"); }
        std::mem::forget(bc);
    }
'''

LAYOUT = r'''
    /// serialised data section == entries laid out at absolute_idx_to_offset(i), zero gaps; configurable j is at offset(j + n)
    #[kani::proof] #[kani::unwind(20)]
    fn layout_@NAME@() {
        let ds = DataSection { non_configurables: vec![@NC@], configurables: vec![@CF@], pointer_id: Default::default() };
        let out = ds.serialize_to_bytes();
        let total = ds.absolute_idx_to_offset(ds.num_entries());
        assert!(out.len() == total && total % 8 == 0, "OB: serialised length is the offset past the last entry");
        let mut k = 0;
        let all: Vec<Entry> = ds.iter_all_entries().collect();
        while k < all.len() {
            let off = ds.absolute_idx_to_offset(k);
            let b = all[k].to_bytes();
            assert!(off % 8 == 0, "OB: every entry starts word-aligned");
            let mut j = 0; while j < b.len() { assert!(out[off + j] == b[j], "OB: entry bytes sit at the reported offset"); j += 1; }
            let end = ds.absolute_idx_to_offset(k + 1);
            let mut j = off + b.len(); while j < end { assert!(out[j] == 0, "OB: alignment gap is zero"); j += 1; }
            k += 1;
        }
        std::mem::forget(out); std::mem::forget(all); std::mem::forget(ds);
    }
'''


STEP = r'''
    /// modular contract of the callee Entry::to_bytes for this obligation: SOME byte string, the same one on every call for the same entry
    static mut TB_LEN: usize = 0;
    static mut TB_CALLS: usize = 0;
    fn to_bytes_contract(_e: &Entry) -> Vec<u8> {
        let n = unsafe { TB_CALLS += 1; TB_LEN };
        let mut v = Vec::new(); let mut i = 0; while i < n { v.push(0x55u8); i += 1; } v
    }
    /// R5 lifting: the fold closure of absolute_idx_to_offset, verbatim, as a function
    fn offset_step(@CPARAMS@) -> usize @CBODY@
    /// R5 lifting: the body of the for loop of serialize_to_bytes, verbatim, as a function
    fn serialize_step(buf: &mut Vec<u8>, @LVAR@: &Entry) @LBODY@
    /// inductive step tying the two real functions together: if the buffer ends at offset(i) before entry i, then after the
    /// loop body it ends at offset(i+1) = fold-closure(offset(i), entry i), entry bytes at offset(i), the gap zero, the prefix untouched
    #[kani::proof] #[kani::unwind(20)] #[kani::stub(Entry::to_bytes, to_bytes_contract)]
    fn layout_step() {
        let n: usize = kani::any(); kani::assume(n <= 9);
        unsafe { TB_LEN = n; TB_CALLS = 0; }
        let words: usize = kani::any(); kani::assume(words <= 2);
        let off = words * 8;
        let e = Entry { value: Datum::Word(0), padding: Padding::Right { target_size: 8 }, name: EntryName::NonConfigurable };
        let mut buf: Vec<u8> = Vec::new(); let mut i = 0; while i < off { buf.push(0xAAu8); i += 1; }
        serialize_step(&mut buf, &e);
        let c1 = unsafe { TB_CALLS };
        let next = offset_step(off, &e);
        let c2 = unsafe { TB_CALLS };
        // (the round-up macro evaluates its argument more than once, so the counts are lower bounds)
        assert!(c1 >= 1 && c2 > c1, "STRUCT: the offset step and the serialiser each measure the entry by calling Entry::to_bytes");
        assert!(buf.len() == next, "OB: the serialiser advances by exactly the step absolute_idx_to_offset adds for the entry");
        let j: usize = kani::any(); kani::assume(j < buf.len());
        if j < off { assert!(buf[j] == 0xAA, "OB: bytes of earlier entries are untouched"); }
        else if j < off + n { assert!(buf[j] == 0x55, "OB: the entry's bytes sit at the reported offset"); }
        else { assert!(buf[j] == 0, "OB: the alignment gap is zero"); }
        std::mem::forget(buf); std::mem::forget(e);
    }
'''


def word(name):
    return "Entry { value: Datum::Word(kani::any()), padding: Padding::Right { target_size: 8 }, name: %s }" % name


def byte(name):
    return "Entry { value: Datum::Byte(kani::any()), padding: Padding::Right { target_size: 1 }, name: %s }" % name


def arr(n, name, pad=None):
    return "Entry { value: Datum::ByteArray(kani::any::<[u8; %d]>().to_vec()), padding: Padding::Right { target_size: %d }, name: %s }" % (n, pad or n, name)


def build(tier):
    def item(f, kind, name):
        return {"id": name, "file": f, "locator": {"kind": "item", "item": kind, "name": name, "attrs": "strip"}}
    def ifn(ty, name):
        return {"id": name, "file": DS, "locator": {"kind": "impl_fn", "self_ty": ty, "name": name, "trait": "-"}}
    specs = [
        {"id": "round_up", "file": "sway-ir/src/irtype.rs", "locator": {"kind": "item", "item": "macro_rules", "name": "size_bytes_round_up_to_word_alignment", "attrs": "strip"}},
        item("sway-core/src/lib.rs", "const", "PRELUDE_CONFIGURABLES_SIZE_IN_BYTES"), item("sway-core/src/lib.rs", "const", "PRELUDE_CONFIGURABLES_OFFSET_IN_BYTES"),
        {"id": "set_off", "file": "sway-core/src/lib.rs", "locator": {"kind": "fn", "name": "set_bytecode_configurables_offset", "attrs": "strip"}},
        item("sway-ir/src/irtype.rs", "enum", "Padding"), {"id": "Padding_impl", "file": "sway-ir/src/irtype.rs", "locator": {"kind": "impl", "self_ty": "Padding", "trait": "-"}},
        item(DS, "enum", "EntryName"), item(DS, "struct", "Entry"), item(DS, "enum", "Datum"), item(DS, "enum", "DataIdEntryKind"), item(DS, "struct", "DataId"), item(DS, "struct", "DataSection"),
        ifn("Entry", "to_bytes"), ifn("Entry", "equiv"),
    ] + [ifn("DataSection", n) for n in ("num_entries", "iter_all_entries", "absolute_idx", "get", "data_id_to_offset", "absolute_idx_to_offset", "serialize_to_bytes", "insert_data_value")]
    fr = vf.extract(specs)
    src = ENV
    for k in fr:
        src = src.replace("@%s@" % k, fr[k]["text"])
    obs = [vf.Ob("round_up_step", "C13", panic_prop="C17", what="layout step: offset(i+1) = least multiple of 8 >= offset(i) + len_i, for every offset and length below 2^48 (unbounded number of entries by induction)"),
           vf.Ob("absolute_idx_of_configurable", "C13", panic_prop="C17", what="absolute_idx(Configurable j) == j + #non-configurables, absolute_idx(NonConfigurable i) == i")]
    offs = ""
    for L in ((24, 32) if tier == "quick" else (24, 25, 32, 40)):
        offs += OFFS.replace("@L@", str(L)).replace("@U@", str(L + 2))
        obs.append(vf.Ob("set_offset_len%d" % L, "C13", complete=False, bound="bytecode of exactly %d bytes, symbolic content" % L, panic_prop="C17",
                         what="set_bytecode_configurables_offset writes bytes [16,24) and leaves every other byte unchanged"))
    # ---- inductive step: fold closure of absolute_idx_to_offset vs loop body of serialize_to_bytes, Entry::to_bytes under a contract stub
    import re
    fo, fs = fr["absolute_idx_to_offset"], fr["serialize_to_bytes"]
    step = ""
    cl = fo["closures"]
    lp = [l for l in fs["loops"] if l["kind"] == "for"]
    if len(cl) == 1 and len(cl[0]["params"]) == 2 and cl[0]["body_is_block"] and len(lp) == 1 and ".fold(" in fo["text"]:
        c, l = cl[0], lp[0]
        hdr = fs["text"][l["start"]:l["body_open"]]
        m = re.match(r"for\s+(\w+)\s+in\s+self\s*\.\s*iter_all_entries\s*\(\s*\)\s*$", hdr)
        if m and re.search(r"let\s+mut\s+buf\b", fs["text"][:l["start"]]):
            step = (STEP.replace("@CPARAMS@", "%s: usize, %s: &Entry" % tuple(c["params"])).replace("@CBODY@", fo["text"][c["body_start"]:c["body_end"]])
                    .replace("@LVAR@", m.group(1)).replace("@LBODY@", fs["text"][l["body_open"]:l["body_close"] + 1]))
    if not step:
        raise vf.Undecided("absolute_idx_to_offset is no longer take(idx).fold(0, |offset, entry| ..) or serialize_to_bytes no longer one `for entry in self.iter_all_entries()` loop over `buf`: the layout-step contract does not apply")
    obs.append(vf.Ob("layout_step", "C13", complete=False, panic_prop="C17",
                     bound="buffer of 0, 8 or 16 bytes before the entry; entry serialisation of 0..9 bytes (Entry::to_bytes under a contract stub: some fixed byte string per entry)",
                     what="loop body of serialize_to_bytes vs fold closure of absolute_idx_to_offset: the buffer grows from offset(i) to offset(i+1), entry bytes at offset(i), zero gap, prefix untouched (inductive step of 'bytes sit at the reported offsets')"))
    NC, CF = "EntryName::NonConfigurable", 'EntryName::Configurable(String::new())'
    # DEMOTED (DESIGN 5): the collection-level layout obligations (serialize_to_bytes vs absolute_idx_to_offset on 3-entry
    # sections) did not finish in 900 s / 5.5 GB each -- iterator chains over heap Vecs; they are not generated any more.
    insts = []
    lay = ""
    for name, nc, cf in insts:
        lay += LAYOUT.replace("@NAME@", name).replace("@NC@", ", ".join(nc)).replace("@CF@", ", ".join(cf))
        obs.append(vf.Ob("layout_%s" % name, "C13", complete=False, bound="one concrete shape of the data section (%s), symbolic contents" % name, panic_prop="C17",
                         what="serialize_to_bytes places every entry at absolute_idx_to_offset(i), gaps zero, total length = offset(n)"))
    def b(v, pad):
        return "Entry { value: Datum::Byte(%s), padding: Padding::%s, name: EntryName::NonConfigurable }" % (v, pad)
    def coll(elems, size):
        return "Entry { value: Datum::Collection(vec![%s]), padding: Padding::Right { target_size: %d }, name: EntryName::NonConfigurable }" % (", ".join(elems), size)
    R1, R8, L8 = "Right { target_size: 1 }", "Right { target_size: 8 }", "Left { target_size: 8 }"
    pools = [("array_vs_struct", coll([b("x", R1), b("y", R1)], 2), coll([b("x", R8), b("y", R8)], 16), "false"),
             ("struct_vs_array", coll([b("x", R8), b("y", R8)], 16), coll([b("x", R1), b("y", R1)], 2), "false"),
             ("byte_vs_padded_byte", b("x", R1), b("x", L8), "false"),
             ("outer_padding", coll([b("x", R1), b("y", R1)], 2), coll([b("x", R1), b("y", R1)], 8), "false"),
             ("same_layout", coll([b("x", R8), b("y", R8)], 16), coll([b("x", R8), b("y", R8)], 16), "true"),
             ("different_values", coll([b("x", R8), b("y", R8)], 16), coll([b("y", R8), b("x", R8)], 16), "(x == y)")]
    if tier == "quick":
        pools = [x for x in pools if x[0] in ("array_vs_struct", "byte_vs_padded_byte", "outer_padding", "same_layout")]
    pool = ""
    for name, present, new, same in pools:
        pool += POOL.replace("@NAME@", name).replace("@PRESENT@", present).replace("@NEW@", new).replace("@SAME@", same)
        obs.append(vf.Ob("pool_%s" % name, "C01", complete=False, bound="one concrete pair of shapes (%s), symbolic element values" % name, panic_prop="C17",
                         what="Entry::equiv (the pooling test of DataSection::insert_data_value) holds exactly when values AND paddings agree at every level"))
    src = src.replace("@OFFS@", offs).replace("@STEP@", step).replace("@LAYOUT@", lay).replace("@POOL@", pool)
    u = vf.KaniUnit("c13_layout", {"src/lib.rs": src}, obs, timeout_s=2400 if tier == "quick" else 4000, jobs=6, auto_files=[DS, "sway-core/src/lib.rs"])
    u.fragments = [vf.frag_record(fr[k]) for k in fr]
    u.rewrites = [{"rule": "R1", "before": "serde derives on Entry/Datum/EntryName/Padding", "after": "plain derives", "times": 5},
                  {"rule": "R5", "before": "fold closure of absolute_idx_to_offset / for-loop body of serialize_to_bytes", "after": "fn offset_step / fn serialize_step with the same parameter names (entry by reference instead of by value: no drop glue)", "times": 2}]
    u.assumptions = ["layout_step: Entry::to_bytes replaced by its contract (a fixed byte string per entry); the induction over entries (iter_all_entries().take(idx).fold / the for loop) is argued in DESIGN, not executed (iterator chains do not finish in CBMC)",
                     "CompiledBytecode reduced to its bytecode field; DataSection::pointer_id replaced by a unit type (not read by the functions under contract)",
                     "unverified: to_bytecode_mut's instruction sizing, AllocatedOp::to_fuel_asm address arithmetic, the Sway/VM side reading the configurable, fuel_abi.rs copying the offsets",
                     "that finalized_asm.rs reports offset_to_data_section + absolute_idx_to_offset(j + #non-configurables) is read, not contracted"]
    u.heavy = True
    return [u]
