"""C23 unit: LSP TextDocument synchronisation (sway-lsp/src/core/document.rs), verbatim, against an LSP reference.

One step of `apply_change` on an ARBITRARY well-formed document is verified, which gives every history by induction;
the only bound is on text size.  Lengths are concrete per harness instance (heap collections of symbolic length are
unaffordable in CBMC); contents, positions and ranges are symbolic.
"""
import itertools

import vf

DF = "sway-lsp/src/core/document.rs"

ENV = r'''
#![allow(unused, dead_code, clippy::all)]
// ---------------- environment: lsp_types as plain structs with the same public fields ----------------
#[derive(Debug, Clone, Copy, PartialEq)] pub struct Position { pub line: u32, pub character: u32 }
#[derive(Debug, Clone, Copy, PartialEq)] pub struct Range { pub start: Position, pub end: Position }
pub struct TextDocumentContentChangeEvent { pub range: Option<Range>, pub range_length: Option<u32>, pub text: String }
#[derive(Debug)] pub enum DocumentError { InvalidRange { range: Range } }
// ---------------- extracted verbatim from sway-lsp/src/core/document.rs ----------------
#[derive(Debug, Clone)]
@TextDocument@
impl TextDocument {
    @apply_change@
    @validate_range@
    @position_to_index@
    @calculate_line_offsets@
}

// ---------------- LSP 3.17 reference (TRUSTED, written independently over bytes) ----------------
/// length in bytes of the UTF-8 character starting with lead byte `b`, and its length in UTF-16 code units
fn ch(b: u8) -> (usize, usize) { if b < 0x80 { (1, 1) } else if b < 0xE0 { (2, 1) } else if b < 0xF0 { (3, 1) } else { (4, 2) } }
/// is there a line terminator starting at byte i, and how long is it ("\n", "\r\n", "\r")
fn eol(t: &[u8], i: usize) -> usize { if t[i] == b'\n' { 1 } else if t[i] == b'\r' { if i + 1 < t.len() && t[i + 1] == b'\n' { 2 } else { 1 } } else { 0 } }
/// byte offsets at which lines start
pub fn spec_line_offsets(t: &[u8], out: &mut [usize; 8]) -> usize {
    let mut n = 1; out[0] = 0;
    let mut i = 0;
    while i < t.len() { let e = eol(t, i); if e > 0 { i += e; out[n] = i; n += 1; } else { i += ch(t[i]).0; } }
    n
}
/// byte offset of the UTF-16 position (line, character): clamped to the end of the line; past the last line = end of text.
/// Returns (index, exact) where exact = false if the position falls inside a surrogate pair (unspecified by the protocol).
pub fn spec_index(t: &[u8], line: u32, character: u32) -> (usize, bool) {
    let mut lo = [0usize; 8];
    let n = spec_line_offsets(t, &mut lo);
    if line as usize >= n { return (t.len(), true); }
    let mut i = lo[line as usize];
    let mut units = 0usize;
    while i < t.len() {
        if eol(t, i) > 0 || units == character as usize { return (i, true); }
        let (bl, ul) = ch(t[i]);
        if units + ul > character as usize { return (i, false); }
        units += ul; i += bl;
    }
    (t.len(), true)
}

#[cfg(kani)]
mod h {
    use super::*;
    fn one(sel: u8) -> u8 { match sel % 3 { 0 => b'a', 1 => b'\n', _ => b'\r' } }
    fn doc_of(s: &str) -> TextDocument {
        let line_offsets = TextDocument::calculate_line_offsets(s);
        TextDocument { version: 1, uri: String::new(), content: String::from(s), line_offsets }
    }
    fn any_pos() -> Position { Position { line: (kani::any::<u8>() % 8) as u32, character: (kani::any::<u8>() % 8) as u32 } }
    // ghost record of the contract stubs of String::replace_range / String::clone_from
    static mut REC: (u8, usize, usize) = (0, 0, 0);
    /// CONTRACT STUB of String::replace_range(start..end, with): precondition start <= end <= len, both on char boundaries
    fn replace_range_stub<R: core::ops::RangeBounds<usize>>(s: &mut String, range: R, _with: &str) {
        use core::ops::Bound::*;
        let a = match range.start_bound() { Included(x) => *x, Excluded(x) => *x + 1, Unbounded => 0 };
        let b = match range.end_bound() { Included(x) => *x + 1, Excluded(x) => *x, Unbounded => s.len() };
        assert!(a <= b && b <= s.len(), "replace_range: range out of bounds (std would panic)");
        assert!(s.is_char_boundary(a) && s.is_char_boundary(b), "replace_range: not a char boundary (std would panic)");
        unsafe { REC = (REC.0 + 1, a, b); }
    }
    fn clone_from_stub(_s: &mut String, _src: &String) { unsafe { REC = (REC.0 + 100, 0, 0); } }
    @HARNESSES@
}
'''

INST = r'''
    // ---- all documents of @LEN@ bytes over the character classes (concrete table, generated): @K@ documents
    const DOCS_@LEN@: [[u8; @LEN@]; @K@] = [@TABLE@];
    #[kani::proof] #[kani::unwind(@U@)]
    fn offsets_len@LEN@() {
        let mut k = 0;
        while k < @K@ {
            let b = DOCS_@LEN@[k];
            let s = unsafe { core::str::from_utf8_unchecked(&b) };
            let got = TextDocument::calculate_line_offsets(s);
            let mut want = [0usize; 8];
            let n = spec_line_offsets(&b, &mut want);
            assert!(got.len() == n, "OB: number of lines differs from the protocol's line structure");
            let mut i = 0; while i < n { assert!(got[i] == want[i], "OB: a line start differs from the protocol's line structure"); i += 1; }
            std::mem::forget(got);
            k += 1;
        }
    }
    #[kani::proof] #[kani::unwind(@U@)]
    fn index_len@LEN@() {
        let mut k = 0;
        while k < @K@ {
            let b = DOCS_@LEN@[k];
            let s = unsafe { core::str::from_utf8_unchecked(&b) };
            let d = doc_of(s);
            let p = any_pos();
            let (want, exact) = spec_index(&b, p.line, p.character);
            let got = d.position_to_index(p);
            if exact { assert!(got == want, "OB: position_to_index differs from the UTF-16 position the client means"); }
            assert!(got <= b.len() && s.is_char_boundary(got), "OB: position_to_index is not a character boundary of the text");
            std::mem::forget(d);
            k += 1;
        }
    }
    fn apply_docs_len@LEN@(lo: usize, hi: usize) {
        let mut k = lo;
        while k < hi {
            let b = DOCS_@LEN@[k];
            let s = unsafe { core::str::from_utf8_unchecked(&b) };
            let mut d = doc_of(s);
            let r = Range { start: any_pos(), end: any_pos() };
            let (ws, es) = spec_index(&b, r.start.line, r.start.character);
            let (we, ee) = spec_index(&b, r.end.line, r.end.character);
            if es && ee {
                let change = TextDocumentContentChangeEvent { range: Some(r), range_length: None, text: String::new() };
                unsafe { REC = (0, 0, 0); }
                let res = d.apply_change(&change);
                let rec = unsafe { REC };
                match res {
                    Ok(()) => { assert!(ws <= we, "OB: an invalid range (start after end) must be rejected");
                                assert!(rec.0 == 1 && rec.1 == ws && rec.2 == we, "OB: the edit must replace exactly the bytes between the two UTF-16 positions");
                                assert!(d.version == 2, "OB: version is incremented"); }
                    Err(_) => { assert!(ws > we, "OB: a valid range must not be rejected");
                                assert!(rec.0 == 0 && d.version == 1, "OB: a rejected change must not alter the document"); }
                }
                std::mem::forget(change);
            }
            std::mem::forget(d);
            k += 1;
        }
    }
'''


def layouts(n):
    """all ways to fill n bytes with characters of 1 (symbolic: 'a' | LF | CR), 2 (e-acute), 3 (euro sign), 4 (U+1F600) bytes"""
    out = []
    def rec(rest, acc):
        if rest == 0:
            out.append(tuple(acc))
            return
        for k in (1, 2, 3, 4):
            if k <= rest:
                rec(rest - k, acc + [k])
    rec(n, [])
    return out


CHBYTES = {2: [0xC3, 0xA9], 3: [0xE2, 0x82, 0xAC], 4: [0xF0, 0x9F, 0x98, 0x80]}


def docs(n):
    out = []
    for lay in layouts(n):
        ones = [i for i, k in enumerate(lay) if k == 1]
        for choice in itertools.product([0x61, 0x0A, 0x0D], repeat=len(ones)):
            it = iter(choice)
            bs = []
            for k in lay:
                bs += [next(it)] if k == 1 else CHBYTES[k]
            out.append(bs)
    return out


def build(tier):
    def ifn(name):
        return {"id": name, "file": DF, "locator": {"kind": "impl_fn", "self_ty": "TextDocument", "name": name, "trait": "-"}}
    fr = vf.extract([{"id": "TextDocument", "file": DF, "locator": {"kind": "item", "item": "struct", "name": "TextDocument", "attrs": "strip"}}]
                    + [ifn(n) for n in ("apply_change", "validate_range", "position_to_index", "calculate_line_offsets")])
    hs, obs = [], []
    # CBMC cost per document is minutes (char_indices from a symbolic offset): the quick tier takes every 1-byte document and a
    # catalogue of 2-byte documents that exercise each feature once (2-byte character, CRLF, LF at either end); thorough takes all
    # 2-byte documents and a 3/4-byte catalogue (3-byte character, surrogate pair, CR LF mixtures).
    CAT2 = [[0xC3, 0xA9], [0x0D, 0x0A], [0x61, 0x0A], [0x0A, 0x61]]
    CAT3 = [[0xE2, 0x82, 0xAC], [0x61, 0xC3, 0xA9], [0xC3, 0xA9, 0x61], [0x61, 0x0A, 0x61], [0x0A, 0x0D, 0x0A], [0x0D, 0x61, 0x0A]]
    CAT4 = [[0xF0, 0x9F, 0x98, 0x80], [0x61, 0x0D, 0x0A, 0x61]]
    plan = [(1, docs(1), "all"), (2, CAT2, "catalogue")] if tier == "quick" else [(1, docs(1), "all"), (2, docs(2), "all"), (3, CAT3, "catalogue"), (4, CAT4, "catalogue")]
    for n, ds, kind in plan:
        table = ", ".join("[" + ", ".join(str(x) for x in d) + "]" for d in ds)
        hs.append(INST.replace("@LEN@", str(n)).replace("@K@", str(len(ds))).replace("@TABLE@", table).replace("@U@", str(len(ds) + 12)))
        b = ("all %d documents of exactly %d bytes made of 'a', LF, CR, U+00E9 (2 bytes), U+20AC (3 bytes), U+1F600 (4 bytes, 2 UTF-16 units)" % (len(ds), n)) if kind == "all" else \
            ("a catalogue of %d documents of %d bytes: %s" % (len(ds), n, ", ".join(repr(bytes(d).decode()) for d in ds)))
        obs.append(vf.Ob("offsets_len%d" % n, "C23", complete=False, bound=b, what="calculate_line_offsets == the protocol's line starts (LF, CRLF, CR)"))
        obs.append(vf.Ob("index_len%d" % n, "C23", complete=False, bound=b + "; every position with line < 8 and character < 8 (beyond the text both clamp)",
                         what="position_to_index == byte offset of the UTF-16 position, clamped to the line end; always a char boundary"))
        groups = [(i, i + 1) for i in range(len(ds))]
        for (lo, hi) in groups:
            nm = "apply_len%d_d%d" % (n, lo)
            hs.append("    #[kani::proof] #[kani::unwind(%d)] #[kani::stub(std::string::String::replace_range, replace_range_stub)] fn %s() { apply_docs_len%d(%d, %d) }" % (len(ds) + 12, nm, n, lo, hi))
            bb = "the document %r (%d bytes)" % (bytes(ds[lo]).decode(), n)
            obs.append(vf.Ob(nm, "C23", complete=False, bound=bb + "; every range of two positions with line < 8 and character < 8",
                             what="apply_change: Ok => exactly one replace_range(spec_index(start)..spec_index(end)) on char boundaries, version+1; Err <=> start after end, document untouched; no panic"))
    hs.append(r'''
    // ---- structure of the step: after the content is mutated the line table is recomputed from the NEW content ----
    static mut SEQ: u8 = 0;
    fn replace_range_seq_stub<R: core::ops::RangeBounds<usize>>(_s: &mut String, _range: R, _with: &str) { unsafe { SEQ = 1; } }
    /// contract stub of calculate_line_offsets: before the mutation it gives the table of the 1-line document, after it a sentinel
    fn line_offsets_stub(_text: &str) -> Vec<usize> { if unsafe { SEQ } == 0 { vec![0] } else { unsafe { SEQ = 2; } vec![0, 777] } }
    #[kani::proof] #[kani::unwind(8)]
    #[kani::stub(std::string::String::replace_range, replace_range_seq_stub)]
    #[kani::stub(TextDocument::calculate_line_offsets, line_offsets_stub)]
    fn apply_recomputes_line_table() {
        unsafe { SEQ = 0; }
        let mut d = doc_of("a");
        let change = TextDocumentContentChangeEvent { range: Some(Range { start: Position { line: 0, character: 0 }, end: Position { line: 0, character: 1 } }),
                                                      range_length: None, text: String::new() };
        let res = d.apply_change(&change);
        assert!(res.is_ok(), "OB: a valid range must not be rejected");
        // STRUCT: this pins HOW the invariant is re-established (recompute after the mutation); a different but correct way makes
        // the obligation inapplicable, so a failure here is reported as UNDECIDED, never as a violation
        assert!(unsafe { SEQ } == 2 && d.line_offsets.len() == 2 && d.line_offsets[1] == 777, "STRUCT: the line table is not recomputed from the new content after the edit");
        std::mem::forget(d); std::mem::forget(change);
    }
    #[kani::proof] #[kani::unwind(8)]
    #[kani::stub(<std::string::String as std::clone::Clone>::clone_from, clone_from_stub)]
    fn apply_full_replace() {
        let mut d = doc_of("a\nb");
        let change = TextDocumentContentChangeEvent { range: None, range_length: None, text: String::from("xy") };
        unsafe { REC = (0, 0, 0); }
        let res = d.apply_change(&change);
        assert!(res.is_ok() && unsafe { REC.0 } == 100 && d.version == 2, "OB: a change without range replaces the whole content exactly once");
        std::mem::forget(d); std::mem::forget(change);
    }''')
    obs.append(vf.Ob("apply_recomputes_line_table", "C23", complete=False, bound="structural obligation on one concrete edit (contract stubs record the call order)",
                     what="apply_change recomputes the line table with calculate_line_offsets AFTER mutating the content (how the well-formedness invariant is re-established); a failure is UNDECIDED, not a violation"))
    obs.append(vf.Ob("apply_full_replace", "C23", complete=False, bound="one concrete document and replacement text", what="a change without range calls content.clone_from(text) once and bumps the version"))
    src = ENV
    for k in fr:
        src = src.replace("@%s@" % k, fr[k]["text"])
    src = src.replace("@HARNESSES@", "\n".join(hs))
    u = vf.KaniUnit("c23_document", {"src/lib.rs": src}, obs, timeout_s=2400 if tier == "quick" else 6000, jobs=6, auto_files=[DF])
    u.fragments = [vf.frag_record(fr[k]) for k in fr]
    u.rewrites = [{"rule": "R0", "before": "TextDocument, apply_change, validate_range, position_to_index, calculate_line_offsets", "after": "verbatim", "times": 5}]
    u.assumptions = [
        "lsp_types::{Position, Range, TextDocumentContentChangeEvent} as plain structs with the same public fields; DocumentError reduced to InvalidRange",
        "String::replace_range / String::clone_from replaced by contract stubs (documented precondition asserted, arguments recorded): std's implementations are trusted to meet their documentation",
        "induction over histories: apply_change is verified from an arbitrary well-formed document (line_offsets == calculate_line_offsets(content)); that the step RE-ESTABLISHES well-formedness is read off the code (`self.line_offsets = Self::calculate_line_offsets(&self.content)` follows the mutation) and NOT discharged: executing the real splice, symbolically or by concrete enumeration, did not finish in 30 min even for 1-byte documents; Documents::update_text_document folds apply_change over the change list (read, not contracted)",
        "data independence: 1-byte characters are 'a', LF or CR; multi-byte characters are U+00E9, U+20AC, U+1F600 (the code only compares with LF/CR and adds byte/UTF-16 lengths)",
        "positions inside a surrogate pair are excluded (unspecified by the protocol)",
        "LSP reference spec_index/spec_line_offsets in the unit (TRUSTED)",
    ]
    u.heavy = True
    return [u]
