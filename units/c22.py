"""C22 unit: forc-pkg compilation_order under a Verus contract (assumed contract for petgraph::algo::toposort)."""
import re

import vf

PRE = r'''use vstd::prelude::*;
verus! {

// ---------- environment (assumed) ----------
pub struct Error;
pub type Result<T> = core::result::Result<T, Error>;
#[derive(Clone, Copy)]
pub struct NodeIx(pub usize);
#[verifier::external_body]
pub struct Graph { _p: () }

/// abstract view of a petgraph graph: node ids and directed edges
pub trait GView {
    spec fn nodes(&self) -> Set<int>;
    spec fn has_edge(&self, a: int, b: int) -> bool;
}
impl GView for Graph {
    uninterp spec fn nodes(&self) -> Set<int>;
    uninterp spec fn has_edge(&self, a: int, b: int) -> bool;
}
impl<G: GView> GView for &G {
    open spec fn nodes(&self) -> Set<int> { (**self).nodes() }
    open spec fn has_edge(&self, a: int, b: int) -> bool { (**self).has_edge(a, b) }
}
pub mod petgraph {
    use super::*;
    pub mod visit {
        use super::super::*;
        /// ASSUMED contract of petgraph::visit::Reversed: same nodes, edge u->v iff the inner graph has v->u
        pub struct Reversed<G>(pub G);
        impl<G: GView> GView for Reversed<G> {
            open spec fn nodes(&self) -> Set<int> { self.0.nodes() }
            open spec fn has_edge(&self, a: int, b: int) -> bool { self.0.has_edge(b, a) }
        }
    }
    pub mod algo {
        use super::super::*;
        pub struct Cycle;
        /// ASSUMED contract of petgraph::algo::toposort(g, None)
        #[verifier::external_body]
        pub fn toposort<G: GView>(g: G, space: Option<()>) -> (r: core::result::Result<Vec<NodeIx>, Cycle>)
            ensures match r {
                Ok(o) => topo_order(g, ids(o@)),
                Err(_) => forall|o: Seq<int>| !topo_order(g, o),
            }
        { unimplemented!() }
    }
}
pub open spec fn ids(o: Seq<NodeIx>) -> Seq<int> { o.map_values(|n: NodeIx| n.0 as int) }
/// `o` lists every node exactly once and every edge u->v of g has pos(u) < pos(v)
pub open spec fn topo_order<G: GView>(g: G, o: Seq<int>) -> bool {
    &&& o.no_duplicates()
    &&& forall|n: int| #![auto] g.nodes().contains(n) <==> o.contains(n)
    &&& forall|i: int, j: int| #![trigger o[i], o[j]] 0 <= i < o.len() && 0 <= j < o.len() && g.has_edge(o[i], o[j]) ==> i < j
}
/// THE PROPERTY: every package exactly once, every dependency before all of its dependents (edge a->b: a depends on b)
pub open spec fn build_order(g: &Graph, o: Seq<int>) -> bool {
    &&& o.no_duplicates()
    &&& forall|n: int| #![auto] g.nodes().contains(n) <==> o.contains(n)
    &&& forall|i: int, j: int| #![trigger o[i], o[j]] 0 <= i < o.len() && 0 <= j < o.len() && g.has_edge(o[i], o[j]) ==> j < i
}

// ---------- extracted from forc-pkg/src/pkg.rs (R2 contract splice, R6 error-message closure, R7 closure binder) ----------
@FN@

/// vacuity twin: the assumed contracts must not be contradictory -- this assertion has to FAIL
pub fn vacuity_twin(graph: &Graph) {
    let r = compilation_order(graph);
    assert(false);
}

} // verus!
fn main() {}
'''

ENSURES = '''-> (r: Result<Vec<NodeIx>>)
    ensures match r {
        // acyclic graph: every package exactly once, dependencies first
        Ok(o) => build_order(graph, ids(o@)),
        // an error is returned only if no valid order exists, i.e. the graph is cyclic
        Err(_) => forall|o: Seq<int>| !build_order(graph, o),
    }
'''
PROOF = '''
    proof { assert forall|o: Seq<int>| #![trigger build_order(graph, o)] #![trigger topo_order(rev_pkg_graph, o)]
                build_order(graph, o) <==> topo_order(rev_pkg_graph, o) by {} }'''


def build(tier):
    fr = vf.extract([{"id": "co", "file": "forc-pkg/src/pkg.rs", "locator": {"kind": "fn", "name": "compilation_order", "attrs": "strip"}}])["co"]
    log = []
    text = fr["text"]
    cl = fr["closures"]
    # R6: the map_err closure only renders the cycle path into an error message -> unit error value
    outer = [c for c in cl if not any(o["start"] < c["start"] and c["end"] <= o["end"] for o in cl if o is not c)]
    if len(outer) != 1:
        raise vf.Undecided("compilation_order: expected exactly one top-level closure (the map_err message builder), found %d" % len(outer))
    c = outer[0]
    if "anyhow!" not in text[c["body_start"]:c["body_end"]]:
        raise vf.Undecided("compilation_order: the top-level closure no longer builds an anyhow! error")
    params = text[c["start"]:c["or2_end"]]
    new_params = re.sub(r"\|\s*_\s*\|", "|_e|", params)
    if new_params != params:
        log.append({"rule": "R7", "before": params, "after": new_params, "times": 1})
    log.append({"rule": "R6", "before": "closure body building the cycle-path message (%d bytes)" % (c["body_end"] - c["body_start"]), "after": "{ Error }", "times": 1})
    text = text[:c["start"]] + new_params + " { Error }" + text[c["body_end"]:]
    text = vf.rewrite_once(text, r"->\s*Result<Vec<NodeIx>>\s*", ENSURES, "R2", log, regex=True)
    text = vf.rewrite_once(text, r"(let rev_pkg_graph = [^;]*;)", lambda m: m.group(1) + PROOF, "R2", log, regex=True)
    log[-1]["after"] = "proof block after the statement"
    log[-2]["after"] = "named return + ensures"
    src = PRE.replace("@FN@", text)
    obs = [
        vf.Ob("compilation_order", "C22", what="compilation_order: Ok(o) => o is a permutation of the nodes with every dependency before its dependents; Err => no such order exists (graph cyclic)"),
        vf.Ob("vacuity_twin", "C22", expect_fail=True, what="assert(false) after the call must fail (assumed contracts are consistent)"),
    ]
    u = vf.VerusUnit("c22_order", src, obs, extra_args=["--triggers-mode", "silent"])
    u.fragments = [vf.frag_record(fr)]
    u.rewrites = [{k: (v if isinstance(v, (str, int)) else str(v)) for k, v in r.items()} for r in log]
    u.assumptions = [
        "ASSUMED contract of petgraph::algo::toposort(g, None): Ok(o) => o is a topological order of g (permutation, edges forward); Err => no topological order exists",
        "ASSUMED contract of petgraph::visit::Reversed: same nodes, reversed edges",
        "Graph is an opaque type with an abstract view (nodes, has_edge); NodeIx carries its index",
        "cyclic graph is characterised as: no dependency-first order exists",
    ]
    return [u]


# ------------------------------------------------------------------------------------------------------
# U22.2 bounded cross-check on the real petgraph: no assumed contract, concrete counterexample graphs
# ------------------------------------------------------------------------------------------------------
KENV = r'''
#![allow(unused, dead_code, unused_macros, clippy::all)]
pub mod anyhow { #[derive(Debug)] pub struct Error; pub type Result<T> = core::result::Result<T, Error>; }
macro_rules! anyhow { ($($t:tt)*) => { crate::anyhow::Error } }
use crate::anyhow::Result;
/// shim of pkg::Node (Pinned): only the name is read, by the error-message closure
pub struct Node { pub name: u8 }
pub type Graph = petgraph::stable_graph::StableGraph<Node, ()>;
pub type NodeIx = petgraph::graph::NodeIndex;
// ---- extracted from forc-pkg/src/pkg.rs (R6: the map_err closure that renders the cycle path returns the unit error) ----
@FN@
#[cfg(kani)]
mod h {
    use super::*;
    /// all graphs with N nodes, any edge set incl. self loops (edge bits enumerated concretely: heap collections of symbolic shape are unaffordable)
    fn check(n: usize, bits: u32) {
        let mut g = Graph::default();
        let mut ix = [NodeIx::new(0); 3];
        let mut i = 0; while i < n { ix[i] = g.add_node(Node { name: i as u8 }); i += 1; }
        let mut e = [[false; 3]; 3];
        let (mut a, mut k) = (0, 0);
        while a < n { let mut b = 0; while b < n { if bits >> k & 1 == 1 { e[a][b] = true; g.add_edge(ix[a], ix[b], ()); } k += 1; b += 1; } a += 1; }
        // reference: the graph is acyclic iff some permutation puts every dependency first (n <= 3: check by closure)
        let mut reach = e;
        let mut m = 0; while m < n { let mut a = 0; while a < n { let mut b = 0; while b < n { if reach[a][m] && reach[m][b] { reach[a][b] = true; } b += 1; } a += 1; } m += 1; }
        let mut cyclic = false; let mut a = 0; while a < n { cyclic |= reach[a][a]; a += 1; }
        match compilation_order(&g) {
            Ok(o) => {
                assert!(!cyclic, "OB: a cyclic graph must be rejected, not ordered");
                assert!(o.len() == n, "OB: the order lists every package exactly once");
                let mut pos = [usize::MAX; 3];
                let mut i = 0; while i < o.len() { let x = o[i].index(); assert!(x < n && pos[x] == usize::MAX, "OB: the order lists every package exactly once"); pos[x] = i; i += 1; }
                let mut a = 0; while a < n { let mut b = 0; while b < n { if e[a][b] { assert!(pos[b] < pos[a], "OB: a dependency must come before its dependent"); } b += 1; } a += 1; }
            }
            Err(_) => assert!(cyclic, "OB: an acyclic graph must be ordered, not rejected"),
        }
    }
    @HARNESSES@
}
'''


def build_kani(tier):
    fr = vf.extract([{"id": "co", "file": "forc-pkg/src/pkg.rs", "locator": {"kind": "fn", "name": "compilation_order", "attrs": "strip"}}])["co"]
    text = fr["text"]
    log = []
    cl = fr["closures"]
    outer = [c for c in cl if not any(o["start"] < c["start"] and c["end"] <= o["end"] for o in cl if o is not c)]
    msg = [c for c in outer if "anyhow!" in text[c["body_start"]:c["body_end"]]]
    if len(msg) == 1:
        c = msg[0]
        text = text[:c["body_start"]] + "{ crate::anyhow::Error }" + text[c["body_end"]:]
        log.append({"rule": "R6", "before": "closure body building the cycle-path message", "after": "{ Error }", "times": 1})
    hs, obs = [], []
    sizes = [(1, 2), (2, 16)] if tier == "quick" else [(1, 2), (2, 16), (3, 512)]
    for n, cnt in sizes:
        step = 64
        for lo in range(0, cnt, step):
            hi = min(cnt, lo + step)
            nm = "order_n%d_%d" % (n, lo)
            hs.append("#[kani::proof] #[kani::unwind(%d)] fn %s() { let mut b = %du32; while b < %d { check(%d, b); b += 1; } }" % (max(hi - lo, 8) + 2, nm, lo, hi, n))
            obs.append(vf.Ob(nm, "C22", complete=False, bound="all graphs with %d node(s), edge sets #%d..%d of %d (self loops included), on the real petgraph %s" % (n, lo, hi - 1, cnt, "0.6"),
                             what="compilation_order on the real petgraph: Ok => permutation with dependencies first, Err <=> cyclic"))
    src = KENV.replace("@FN@", text).replace("@HARNESSES@", "\n    ".join(hs))
    u = vf.KaniUnit("c22_petgraph", {"src/lib.rs": src}, obs, deps={"petgraph": "0.6"}, timeout_s=1500, jobs=4, auto_files=["forc-pkg/src/pkg.rs"])
    u.fragments = [vf.frag_record(fr)]
    u.rewrites = log
    u.assumptions = ["pkg::Graph instantiated with a node weight that carries only a name; edge weight ()"]
    u.heavy = True
    return [u]
