"""C07 unit: `remove_redundant_ops` as a whole (misc.rs), verbatim, on every straight-line block of 4 modelled instructions:
the block it returns computes the same general registers as the block it was given, flags included in the machine model."""
import re

import vf
from units.c07 import item, VR, LOGRE

MISC = "sway-core/src/asm_generation/fuel/optimizations/misc.rs"

ENV = r'''
#![allow(unused, dead_code, non_snake_case, unreachable_patterns, clippy::all)]
pub use ::either::Either;
// ---------------- environment (hand-written, listed as assumptions) ----------------
#[derive(Hash, PartialEq, Eq, PartialOrd, Ord, Debug, Clone)]
pub enum VirtualRegister { Virtual(u8), Constant(ConstantRegister) }
#[derive(Clone, Debug)] pub struct VirtualImmediate12 { pub value: u16 }
impl VirtualImmediate12 { pub fn value(&self) -> u16 { self.value } }
/// the VirtualOp variants of the model (same constructor shapes as the real enum)
#[derive(Clone, Debug)]
pub enum VirtualOp {
    NOOP, MOVE(VirtualRegister, VirtualRegister), ADD(VirtualRegister, VirtualRegister, VirtualRegister),
    LW(VirtualRegister, VirtualRegister, VirtualImmediate12), MCP(VirtualRegister, VirtualRegister, VirtualRegister),
    MCPI(VirtualRegister, VirtualRegister, VirtualImmediate12),
}
#[derive(Clone, Debug)] pub enum OrganizationalOp { Label(usize) }
#[derive(Clone, Debug)] pub struct Op { pub opcode: Either<VirtualOp, OrganizationalOp> }
/// array-backed stand-in for BTreeSet<&VirtualRegister> with the methods the pass calls
pub struct RegSet<'a> { pub items: [Option<&'a VirtualRegister>; 3] }
pub struct Count(usize);
impl Count { pub fn count(self) -> usize { self.0 } }
impl<'a> RegSet<'a> {
    pub fn of(rs: &[&'a VirtualRegister]) -> Self { let mut s = RegSet { items: [None, None, None] }; let mut i = 0; while i < rs.len() { if !s.contains(rs[i]) { s.items[i] = Some(rs[i]); } i += 1; } s }
    pub fn contains(&self, r: &VirtualRegister) -> bool { self.items.iter().any(|x| matches!(x, Some(y) if *y == r)) }
    pub fn is_empty(&self) -> bool { self.items.iter().all(|x| x.is_none()) }
    pub fn intersection(&self, other: &RegSet<'_>) -> Count { let mut n = 0; for x in self.items.iter() { if let Some(y) = x { if other.contains(y) { n += 1; } } } Count(n) }
    pub fn retain<F: FnMut(&&'a VirtualRegister) -> bool>(&mut self, mut f: F) { for x in self.items.iter_mut() { if let Some(y) = x { if !f(y) { *x = None; } } } }
}
static OF: VirtualRegister = VirtualRegister::Constant(ConstantRegister::Overflow);
static ERR: VirtualRegister = VirtualRegister::Constant(ConstantRegister::Error);
impl Op {
    /// ASSUMED contract of Op::def_const_registers on the modelled variants (the real table is checked in unit c07_constprop/def_tables):
    /// NOOP, MOVE and ADD (re)define $of and $err; LW, MCP, MCPI and labels define none
    pub fn def_const_registers(&self) -> RegSet<'_> {
        match &self.opcode { Either::Left(VirtualOp::NOOP) | Either::Left(VirtualOp::MOVE(..)) | Either::Left(VirtualOp::ADD(..)) => RegSet::of(&[&OF, &ERR]), _ => RegSet::of(&[]) }
    }
    /// ASSUMED contract of Op::use_registers on the modelled variants
    pub fn use_registers(&self) -> RegSet<'_> {
        match &self.opcode {
            Either::Left(VirtualOp::MOVE(_, s)) => RegSet::of(&[s]),
            Either::Left(VirtualOp::ADD(_, a, b)) => RegSet::of(&[a, b]),
            Either::Left(VirtualOp::LW(_, a, _)) => RegSet::of(&[a]),
            Either::Left(VirtualOp::MCP(a, b, c)) => RegSet::of(&[a, b, c]),
            Either::Left(VirtualOp::MCPI(a, b, _)) => RegSet::of(&[a, b]),
            _ => RegSet::of(&[]),
        }
    }
}
pub struct AbstractInstructionSet { pub ops: Vec<Op> }
// ---------------- extracted verbatim ----------------
#[derive(Hash, PartialEq, Eq, PartialOrd, Ord, Debug, Clone)]
@ConstantRegister@
impl AbstractInstructionSet {
    @remove_redundant_ops@
}

#[cfg(kani)]
mod h {
    use super::*;
    /// machine state of the model: two virtual registers and $of ($err behaves like $of and is not read by the generated blocks)
    #[derive(Clone, Copy)] struct St { v: [u64; 2], of: u64 }
    fn rd(s: &St, r: &VirtualRegister) -> u64 { match r { VirtualRegister::Virtual(i) => s.v[(*i % 2) as usize], VirtualRegister::Constant(ConstantRegister::Overflow) => s.of, VirtualRegister::Constant(ConstantRegister::Zero) => 0, VirtualRegister::Constant(_) => 1 } }
    fn wr(s: &mut St, r: &VirtualRegister, x: u64) { if let VirtualRegister::Virtual(i) = r { s.v[(*i % 2) as usize] = x; } }
    /// FuelVM, wrapping mode: NOOP and MOVE reset $of; ADD sets it to the carry; LW loads `mem` and leaves the flags; zero-length copies and labels do nothing
    fn exec(ops: &Vec<Op>, mut s: St, mem: u64) -> St {
        let mut i = 0;
        while i < ops.len() {
            match &ops[i].opcode {
                Either::Left(VirtualOp::NOOP) => { s.of = 0; }
                Either::Left(VirtualOp::MOVE(d, a)) => { let x = rd(&s, a); wr(&mut s, d, x); s.of = 0; }
                Either::Left(VirtualOp::ADD(d, a, b)) => { let (x, c) = rd(&s, a).overflowing_add(rd(&s, b)); wr(&mut s, d, x); s.of = c as u64; }
                Either::Left(VirtualOp::LW(d, _, _)) => { wr(&mut s, d, mem); }
                Either::Left(VirtualOp::MCP(..)) | Either::Left(VirtualOp::MCPI(..)) => {}   // only generated with length zero
                Either::Right(_) => {}
            }
            i += 1;
        }
        s
    }
    fn any_reg() -> VirtualRegister { match kani::any::<u8>() % 4 { 0 => VirtualRegister::Virtual(0), 1 => VirtualRegister::Virtual(1), 2 => VirtualRegister::Constant(ConstantRegister::Overflow), _ => VirtualRegister::Constant(ConstantRegister::Zero) } }
    fn any_dst() -> VirtualRegister { VirtualRegister::Virtual(kani::any::<u8>() % 2) }
    fn any_op() -> Op {
        Op { opcode: match kani::any::<u8>() % 6 {
            0 => Either::Left(VirtualOp::NOOP), 1 => Either::Left(VirtualOp::MOVE(any_dst(), any_reg())), 2 => Either::Left(VirtualOp::ADD(any_dst(), any_reg(), any_reg())),
            3 => Either::Left(VirtualOp::LW(any_dst(), any_dst(), VirtualImmediate12 { value: 0 })),
            4 => Either::Left(VirtualOp::MCPI(any_dst(), any_dst(), VirtualImmediate12 { value: 0 })),
            _ => Either::Left(VirtualOp::MCP(any_dst(), any_dst(), VirtualRegister::Constant(ConstantRegister::Zero))),
        } }
    }
    #[kani::proof] #[kani::unwind(@U@)]
    fn block_equivalence_len@N@() {
        let mut ops: Vec<Op> = Vec::new();
        let mut i = 0; while i < @N@ { ops.push(any_op()); i += 1; }
        let s0 = St { v: kani::any(), of: kani::any::<u8>() as u64 % 2 };
        let mem: u64 = kani::any();
        let want = exec(&ops, s0, mem);
        let out = AbstractInstructionSet { ops }.remove_redundant_ops(|_s: &str| {});
        kani::cover!(out.ops.len() < @N@, "something is removed");
        let got = exec(&out.ops, s0, mem);
        assert!(got.v[0] == want.v[0] && got.v[1] == want.v[1], "OB: the block left by remove_redundant_ops computes different register values than the block it was given (a flag-resetting instruction was dropped while $of was still to be read)");
        std::mem::forget(out);
    }
}
'''


def build(tier):
    fr = vf.extract([
        {"id": "remove_redundant_ops", "file": MISC, "locator": {"kind": "impl_fn", "self_ty": "AbstractInstructionSet", "name": "remove_redundant_ops"}},
        {"id": "ConstantRegister", "file": VR, "locator": item("enum", "ConstantRegister")},
    ])
    rewrites = []
    rep = dict((k, v["text"]) for k, v in fr.items())
    body = rep["remove_redundant_ops"]
    n = len(re.findall(LOGRE, body))
    if n:
        body = re.sub(LOGRE, "();", body)
        rewrites.append({"rule": "R6", "before": "log(&format!(..)) calls", "after": "();", "times": n})
    named = set(re.findall(r"VirtualOp::([A-Z][A-Z0-9_]*)", body))
    extra = named - {"NOOP", "MOVE", "MCP", "MCPI"}
    if extra:
        raise vf.Undecided("remove_redundant_ops names VirtualOp variant(s) %s that the block model has no semantics for" % ", ".join(sorted(extra)))
    rep["remove_redundant_ops"] = body
    rep["ConstantRegister"] = "pub " + re.sub(r"^pub(\([a-z]+\))?\s+", "", rep["ConstantRegister"])
    N = 3 if tier == "quick" else 4   # three suffice for a stale-flag read because the initial $of is symbolic; 4 takes ~16 min
    src = ENV
    for k, v in rep.items():
        src = src.replace("@%s@" % k, v)
    src = src.replace("@N@", str(N)).replace("@U@", str(N + 3))
    obs = [vf.Ob("block_equivalence_len%d" % N, "C07", complete=False, panic_prop="C17",
                 bound="straight-line blocks of exactly %d instructions over {NOOP, MOVE, ADD, LW, MCP _ _ $zero, MCPI _ _ 0}, registers {v0, v1, $of, $zero}, every initial state" % N,
                 what="remove_redundant_ops (whole function, verbatim): executing the returned block gives the same general registers as executing the original block, on a machine model in which NOOP/MOVE reset $of, ADD sets it and LW leaves it")]
    u = vf.KaniUnit("c07_flagguard", {"src/lib.rs": src}, obs, deps={"either": "1"}, timeout_s=1500, jobs=2, auto_files=[MISC])
    u.fragments = [vf.frag_record(fr[k]) for k in fr]
    u.rewrites = rewrites
    u.assumptions = [
        "ASSUMED contracts of Op::def_const_registers / Op::use_registers on the six modelled variants (hand-written in the environment; the real def tables are checked in c07_constprop/def_tables), returned as an array-backed set with the BTreeSet methods the pass calls (is_empty, intersection().count(), retain, contains)",
        "machine model written by hand from fuel-specs: NOOP and MOVE reset $of/$err, ADD (wrapping mode) sets $of to the carry, LW/MCP/MCPI leave the flags; $err is treated like $of and not generated; flags are not observable after the end of the block (the pass makes the same assumption at organizational ops)",
        "VirtualOp, Op and AbstractInstructionSet are shims with the real constructor shapes; only blocks of three (thorough: four) instructions are explored",
    ]
    u.heavy = True
    return [u]
