use vstd::prelude::*;
use std::ops::{Add, Sub, Mul, Div, Rem, Shl, Shr, Not, BitAnd, BitOr, BitXor};
use vstd::std_specs::ops::*;
use vstd::std_specs::cmp::*;
use vstd::arithmetic::power2::{pow2, lemma_pow2_strictly_increases, lemma_pow2_pos};
verus! {

// =====================================================================================================
// ASSUMED: num_bigint::BigUint as an abstract type isomorphic to nat (every axiom below is listed in the evidence)
// =====================================================================================================
#[verifier::external_body]
pub struct BigUint { _p: () }
impl View for BigUint { type V = nat; uninterp spec fn view(&self) -> nat; }
pub uninterp spec fn mk(n: nat) -> BigUint;
#[verifier::external_body]
pub broadcast proof fn ax_mk(n: nat) ensures #[trigger] mk(n)@ == n {}
/// bitwise operations on naturals: uninterpreted (the VM's WQOP and/or/xor are the same mathematical functions)
pub uninterp spec fn nat_and(a: nat, b: nat) -> nat;
pub uninterp spec fn nat_or(a: nat, b: nat) -> nat;
pub uninterp spec fn nat_xor(a: nat, b: nat) -> nat;
#[verifier::external_body]
pub broadcast proof fn ax_bitwise_range(a: nat, b: nat)
    requires a < pow2(256), b < pow2(256)
    ensures #[trigger] nat_and(a, b) < pow2(256), #[trigger] nat_or(a, b) < pow2(256), #[trigger] nat_xor(a, b) < pow2(256) {}

@BIGUINT_BINOPS@

impl<'a> Shl<&'a u64> for &'a BigUint { type Output = BigUint; #[verifier::external_body] fn shl(self, rhs: &'a u64) -> BigUint { unimplemented!() } }
impl<'a> ShlSpecImpl<&'a u64> for &'a BigUint {
    open spec fn obeys_shl_spec() -> bool { true }
    /// RESOURCE precondition: `BigUint << n` materialises all n low zero bits (n/8 bytes of heap) before anybody can look at
    /// the result; an amount above 2^16 on a non-zero value is treated as an abort (allocation failure), like a panic
    open spec fn shl_req(self, rhs: &'a u64) -> bool { *rhs <= 65536 || self@ == 0 }
    open spec fn shl_spec(self, rhs: &'a u64) -> BigUint { mk(self@ * pow2(*rhs as nat)) }
}
impl<'a> Shr<&'a u64> for &'a BigUint { type Output = BigUint; #[verifier::external_body] fn shr(self, rhs: &'a u64) -> BigUint { unimplemented!() } }
impl<'a> ShrSpecImpl<&'a u64> for &'a BigUint {
    open spec fn obeys_shr_spec() -> bool { true }
    open spec fn shr_req(self, rhs: &'a u64) -> bool { true }
    open spec fn shr_spec(self, rhs: &'a u64) -> BigUint { mk(self@ / pow2(*rhs as nat)) }
}
impl PartialEq for BigUint { #[verifier::external_body] fn eq(&self, o: &BigUint) -> bool { unimplemented!() } }
impl PartialEqSpecImpl for BigUint {
    open spec fn obeys_eq_spec() -> bool { true }
    open spec fn eq_spec(&self, o: &BigUint) -> bool { self@ == o@ }
}
impl PartialOrd for BigUint { #[verifier::external_body] fn partial_cmp(&self, o: &BigUint) -> Option<core::cmp::Ordering> { unimplemented!() } }
impl PartialOrdSpecImpl for BigUint {
    open spec fn obeys_partial_cmp_spec() -> bool { true }
    open spec fn partial_cmp_spec(&self, o: &BigUint) -> Option<core::cmp::Ordering> {
        if self@ < o@ { Some(core::cmp::Ordering::Less) } else if self@ == o@ { Some(core::cmp::Ordering::Equal) } else { Some(core::cmp::Ordering::Greater) }
    }
}
impl BigUint {
    #[verifier::external_body]
    pub exec const ZERO: BigUint ensures Self::ZERO@ == 0 { BigUint { _p: () } }
    /// number of significant bits
    #[verifier::external_body]
    pub fn bits(&self) -> (r: u64) ensures (r <= 256) == (self@ < pow2(256)) { unimplemented!() }
    /// num_traits::Zero::is_zero
    #[verifier::external_body]
    pub fn is_zero(&self) -> (r: bool) ensures r == (self@ == 0) { unimplemented!() }
}
pub assume_specification<T>[ bool::then_some ](b: bool, t: T) -> (r: Option<T>)
    ensures r == (if b { Some(t) } else { None::<T> });

// =====================================================================================================
// sway_types::U256 -- extracted from sway-types/src/u256.rs; contracts spliced (R2), `&a op &b` in method form (R4)
// =====================================================================================================
@U256_STRUCT@
// #[derive(PartialEq, PartialOrd)] on `struct U256(BigUint)`: ASSUMED to compare the wrapped values
impl PartialEq for U256 { #[verifier::external_body] fn eq(&self, o: &U256) -> bool { unimplemented!() } }
impl PartialEqSpecImpl for U256 {
    open spec fn obeys_eq_spec() -> bool { true }
    open spec fn eq_spec(&self, o: &U256) -> bool { self.0@ == o.0@ }
}
impl PartialOrd for U256 { #[verifier::external_body] fn partial_cmp(&self, o: &U256) -> Option<core::cmp::Ordering> { unimplemented!() } }
impl PartialOrdSpecImpl for U256 {
    open spec fn obeys_partial_cmp_spec() -> bool { true }
    open spec fn partial_cmp_spec(&self, o: &U256) -> Option<core::cmp::Ordering> {
        if self.0@ < o.0@ { Some(core::cmp::Ordering::Less) } else if self.0@ == o.0@ { Some(core::cmp::Ordering::Equal) } else { Some(core::cmp::Ordering::Greater) }
    }
}
/// type invariant of every U256 the compiler builds from a literal or from a checked operation
pub open spec fn wf(x: &U256) -> bool { x.0@ < pow2(256) }

@U256_IMPL@

// operator impls for &U256: bodies extracted; the contract is carried by the vstd *SpecImpl twin
@U256_OPS@

/// ASSUMED contract of `impl Not for &U256` (body uses iter_mut().for_each and Vec conversions: outside Verus's subset)
impl Not for &U256 { type Output = U256; #[verifier::external_body] fn not(self) -> U256 { unimplemented!() } }
impl NotSpecImpl for &U256 {
    open spec fn obeys_not_spec() -> bool { true }
    open spec fn not_req(self) -> bool { wf(self) }
    open spec fn not_spec(self) -> U256 { U256(mk((pow2(256) - 1 - self.0@) as nat)) }
}

// =====================================================================================================
// FuelVM 256-bit ALU oracle (spec level; TRUSTED transcription of fuel-vm 0.66.4 interpreter/alu/wideint.rs):
// None = the instruction panics under default flags.  WQOP add/sub, WQML mul: overflow panics; WQDV: zero divisor
// panics; shl/shr truncate and never panic (shift >= 256 gives 0); and/or/xor/not are total.
// =====================================================================================================
pub open spec fn wq_add(l: nat, r: nat) -> Option<nat> { if l + r < pow2(256) { Some(l + r) } else { None } }
pub open spec fn wq_sub(l: nat, r: nat) -> Option<nat> { if l >= r { Some((l - r) as nat) } else { None } }
pub open spec fn wq_mul(l: nat, r: nat) -> Option<nat> { if l * r < pow2(256) { Some(l * r) } else { None } }
pub open spec fn wq_div(l: nat, r: nat) -> Option<nat> { if r != 0 { Some(l / r) } else { None } }
pub open spec fn wq_mod(l: nat, r: nat) -> Option<nat> { if r != 0 { Some(l % r) } else { None } }
pub open spec fn wq_shl(l: nat, n: nat) -> Option<nat> { if n < 256 { Some((l * pow2(n)) % pow2(256)) } else { Some(0) } }
pub open spec fn wq_shr(l: nat, n: nat) -> Option<nat> { if n < 256 { Some(l / pow2(n)) } else { Some(0) } }
pub open spec fn wq_not(l: nat) -> Option<nat> { Some((pow2(256) - 1 - l) as nat) }

pub proof fn lemma_shr_big(l: nat, n: nat)
    requires l < pow2(256), n >= 256
    ensures l / pow2(n) == 0
{
    if n > 256 { lemma_pow2_strictly_increases(256, n); }
    vstd::arithmetic::div_mod::lemma_basic_div(l as int, pow2(n) as int);
}
pub proof fn lemma_shl_fits(l: nat, n: nat)
    requires l * pow2(n) < pow2(256)
    ensures wq_shl(l, n) == Some(l * pow2(n))
{
    if n < 256 {
        vstd::arithmetic::div_mod::lemma_small_mod(l * pow2(n), pow2(256));
    } else {
        if n > 256 { lemma_pow2_strictly_increases(256, n); }
        lemma_pow2_pos(n);
        if l != 0 { assert(l * pow2(n) >= pow2(n)) by (nonlinear_arith) requires l >= 1, pow2(n) > 0; }
        assert(l * pow2(n) == 0) by (nonlinear_arith) requires l == 0;
    }
}

// the IR constant (only the variants the wide arms build)
pub enum ConstantValue { Uint(u64), U256(U256), B256(U256), Bool(bool) }

// =====================================================================================================
// per-arm lifting (R5) of the U256 arms of combine_binary_op / combine_unary_op / const_eval_intrinsic
// =====================================================================================================
@ARMS@

/// vacuity twin: the axioms and preconditions above must be jointly satisfiable -- the final assertion has to FAIL
pub fn vacuity_twin(a: &U256, b: &U256)
    requires wf(a), wf(b)
{
    broadcast use ax_mk, ax_bitwise_range;
    let r1 = a.checked_add(b);
    let r2 = a.checked_div(b);
    let r3 = a.bitand(b);
    let r4 = a.checked_shl(&3u64);
    assert(false);
}

} // verus!
fn main() {}
