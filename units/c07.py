"""C07 unit: asm-level constant propagation (sway-core/.../optimizations/constant_propagate.rs).

The per-op body of `constant_propagate` is reassembled from verbatim pieces (macro table, rule match, fallback
match, ResetKnown::apply, KnownValues) and checked against the FuelVM ALU oracle with the standard
transfer-function soundness obligation, per opcode.
"""
import re

import vf

CP = "sway-core/src/asm_generation/fuel/optimizations/constant_propagate.rs"
VO = "sway-core/src/asm_lang/virtual_ops.rs"
VI = "sway-core/src/asm_lang/virtual_immediate.rs"
VR = "sway-core/src/asm_lang/virtual_register.rs"
ML = "sway-core/src/asm_lang/mod.rs"
CC = "sway-core/src/asm_generation/fuel/compiler_constants.rs"

HOST = {"kind": "impl_fn", "self_ty": "AbstractInstructionSet", "name": "constant_propagate"}


def item(kind, name, strip=True):
    d = {"kind": "item", "item": kind, "name": name}
    if strip:
        d["attrs"] = "strip"
    return d


def ifn(ty, name, trait=None):
    d = {"kind": "impl_fn", "self_ty": ty, "name": name}
    if trait:
        d["trait"] = trait
    return d


SPECS = [
    {"id": "host", "file": CP, "locator": HOST},
    {"id": "MACRO", "file": CP, "locator": {"kind": "in_fn", "fn": HOST, "what": "macro_rules", "name": "transform_operator"}},
    {"id": "LET_RESET_0", "file": CP, "locator": {"kind": "in_fn", "fn": HOST, "what": "let", "binds": "reset", "nth": 0}},
    {"id": "LET_RESET_1", "file": CP, "locator": {"kind": "in_fn", "fn": HOST, "what": "let", "binds": "reset", "nth": 1}},
    {"id": "KnownRegValue", "file": CP, "locator": item("enum", "KnownRegValue")},
    {"id": "KnownRegValue_impl", "file": CP, "locator": {"kind": "impl", "self_ty": "KnownRegValue"}},
    {"id": "KnownValues", "file": CP, "locator": item("struct", "KnownValues")},
    {"id": "KnownValues_impl", "file": CP, "locator": {"kind": "impl", "self_ty": "KnownValues"}},
    {"id": "ResetKnown", "file": CP, "locator": item("enum", "ResetKnown")},
    {"id": "ResetKnown_impl", "file": CP, "locator": {"kind": "impl", "self_ty": "ResetKnown"}},
] + [{"id": n, "file": CP, "locator": {"kind": "fn", "name": n, "attrs": "strip"}} for n in ("u64_bitand", "u64_bitor", "u64_bitxor", "u64_eq", "u64_gt", "u64_lt")] + [
    {"id": "ConstantRegister", "file": VR, "locator": item("enum", "ConstantRegister")},
    {"id": "VirtualOp", "file": VO, "locator": item("enum", "VirtualOp")},
    {"id": "vop_def_registers", "file": VO, "locator": ifn("VirtualOp", "def_registers")},
    {"id": "vop_def_const_registers", "file": VO, "locator": ifn("VirtualOp", "def_const_registers")},
    {"id": "vop_has_side_effect", "file": VO, "locator": ifn("VirtualOp", "has_side_effect")},
    {"id": "vop_use_registers_mut", "file": VO, "locator": ifn("VirtualOp", "use_registers_mut")},
    {"id": "JumpType", "file": ML, "locator": item("enum", "JumpType")},
    {"id": "ControlFlowOp", "file": ML, "locator": item("enum", "ControlFlowOp")},
    {"id": "cfo_def_registers", "file": ML, "locator": ifn("ControlFlowOp<Reg>", "def_registers")},
    {"id": "cfo_def_const_registers", "file": ML, "locator": ifn("ControlFlowOp<Reg>", "def_const_registers")},
    {"id": "cfo_use_registers_mut", "file": ML, "locator": ifn("ControlFlowOp<Reg>", "use_registers_mut")},
    {"id": "op_def_registers", "file": ML, "locator": ifn("Op", "def_registers")},
    {"id": "op_def_const_registers", "file": ML, "locator": ifn("Op", "def_const_registers")},
    {"id": "op_use_registers_mut", "file": ML, "locator": ifn("Op", "use_registers_mut")},
] + [{"id": "m_" + n, "file": VO, "locator": {"kind": "in_fn", "fn": ifn("VirtualOp", n), "what": "match", "scrutinee": "self"}}
     for n in ("def_registers", "def_const_registers", "has_side_effect", "use_registers_mut")] + [
] + [{"id": "VirtualImmediate%s" % w, "file": VI, "locator": item("struct", "VirtualImmediate%s" % w)} for w in ("06", "12", "18", "24")] + [
    {"id": "imm12_try_new", "file": VI, "locator": ifn("VirtualImmediate12", "try_new", "-")},
    {"id": "imm12_value", "file": VI, "locator": ifn("VirtualImmediate12", "value", "-")},
    {"id": "imm18_try_new", "file": VI, "locator": ifn("VirtualImmediate18", "try_new", "-")},
    {"id": "imm18_value", "file": VI, "locator": ifn("VirtualImmediate18", "value", "-")},
    {"id": "imm12_tryinto", "file": VI, "locator": {"kind": "impl", "self_ty": "u64", "trait": "TryInto<VirtualImmediate12>"}},
] + [{"id": "CONST_" + n, "file": CC, "locator": item("const", n)} for n in ("TWENTY_FOUR_BITS", "EIGHTEEN_BITS", "TWELVE_BITS", "SIX_BITS")]

KEEP = set("ADD ADDI AND ANDI DIV DIVI EQ EXP EXPI GT LT MLOG MOD MODI MOVE MOVI MROO MUL MULI NOOP NOT OR ORI SLL SLLI SRL SRLI SUB SUBI XOR XORI ECAL".split())


def split_top(text, sep):
    """split at top-level occurrences of `sep` (not inside () [] {} or comments)"""
    out, depth, cur, i = [], 0, "", 0
    while i < len(text):
        if text.startswith("//", i):
            j = text.find("\n", i)
            j = len(text) if j < 0 else j
            cur += text[i:j]
            i = j
            continue
        if text.startswith("/*", i):
            j = text.find("*/", i) + 2
            cur += text[i:j]
            i = j
            continue
        c = text[i]
        if c in "([{":
            depth += 1
        elif c in ")]}":
            depth -= 1
        if c == sep and depth == 0:
            out.append(cur)
            cur = ""
        else:
            cur += c
        i += 1
    out.append(cur)
    return out


def ctor(pat):
    m = re.match(r"\s*(?:/\*.*?\*/\s*|//[^\n]*\n\s*)*([A-Za-z_][A-Za-z0-9_]*)", pat, re.S)
    return m.group(1) if m else None


def filter_enum(text, keep, log):
    """R8: keep only the listed variants of an enum (each kept variant verbatim)"""
    a, b = text.index("{"), text.rindex("}")
    vs = split_top(text[a + 1:b], ",")
    kept = [v for v in vs if ctor(v) in keep]
    log.append({"rule": "R8", "before": "enum with %d variants" % sum(1 for v in vs if ctor(v)), "after": "%d variants kept: ALU class" % len(kept), "times": 1})
    return text[:a + 1] + ",".join(kept) + ",\n" + text[b:]


def filter_match_fn(fn_text, m, keep, log):
    """R8: in `fn_text` (a fn whose fragment `m` is its `match self`), drop or-pattern alternatives / arms whose constructor is not kept"""
    rel = fn_text.index(m["text"])
    body = m["text"]
    pieces, last = [], 0
    kept_alts = dropped = 0
    for arm in m["arms"]:
        pat = arm["pat"]
        alts = split_top(pat, "|")
        keep_alts = [x for x in alts if x.strip() and (ctor(x) in keep or ctor(x) == "_" or x.strip() == "_")]
        dropped += len([x for x in alts if x.strip()]) - len(keep_alts)
        kept_alts += len(keep_alts)
        pieces.append(body[last:arm["start"]])
        if keep_alts:
            pieces.append("|".join(keep_alts) + body[arm["start"] + len(pat):arm["end"]])
            last = arm["end"]
        else:
            # drop the arm and the comma that follows it
            e = arm["end"]
            mm = re.match(r"\s*,", body[e:])
            last = e + (mm.end() if mm else 0)
    pieces.append(body[last:])
    log.append({"rule": "R8", "before": "match arms over all VirtualOp variants", "after": "%d alternatives kept, %d dropped" % (kept_alts, dropped), "times": 1})
    return fn_text[:rel] + "".join(pieces) + fn_text[rel + len(body):]


OPS3 = ["ADD", "SUB", "MUL", "DIV", "MOD", "EXP", "MLOG", "AND", "OR", "XOR", "SLL", "SRL", "EQ", "GT", "LT"]
HARD = {"MUL", "DIV", "MOD", "EXP", "MLOG"}
UFSTUBS = {
    "MUL": "#[kani::stub(u64::checked_mul, uf::checked_mul)] #[kani::stub(vm_alu::prim_mul128, uf::prim_mul128)] ",
    "DIV": "#[kani::stub(u64::checked_div, uf::checked_div)] #[kani::stub(vm_alu::prim_div, uf::prim_div)] ",
    "MOD": "#[kani::stub(u64::checked_rem, uf::checked_rem)] #[kani::stub(vm_alu::prim_rem, uf::prim_rem)] ",
    "EXP": "#[kani::stub(u64::checked_pow, uf::checked_pow)] #[kani::stub(vm_alu::prim_pow, uf::prim_pow)] ",
    "MLOG": "#[kani::stub(u64::checked_ilog, uf::checked_ilog)] #[kani::stub(vm_alu::prim_ilog, uf::prim_ilog)] ",
}
LOGRE = r"log\(&format!\((?:[^()]|\([^()]*\))*\)\);"


def build(tier):
    fr = vf.extract(SPECS)
    rewrites = []
    host = fr["host"]
    loops = host["loops"]
    if len(loops) < 3 or loops[2]["kind"] != "for" or "use_registers_mut" not in host["text"][loops[2]["start"]:loops[2]["body_open"]]:
        raise vf.Undecided("constant_propagate: the use-register replacement loop is no longer loop #2")
    use_loop = host["text"][loops[2]["start"]:loops[2]["body_close"]]
    macro_rel = fr["MACRO"]["start"] - host["start"]
    jnz = host["text"][loops[2]["body_close"]:macro_rel]
    if "JumpType::NotZero" not in jnz:
        raise vf.Undecided("constant_propagate: JNZ rewrite not found between the use loop and the macro")
    src = open(vf.ROOT + "/units/c07_env.rs").read()
    macro = vf.rewrite_once(fr["MACRO"]["text"], LOGRE, "();", "R6", rewrites, regex=True)
    let0 = vf.rewrite_once(fr["LET_RESET_0"]["text"], LOGRE, "();", "R6", rewrites, regex=True)
    rep = dict((k, v["text"]) for k, v in fr.items())
    rep.update({"MACRO": macro, "LET_RESET_0": let0, "USE_REPLACE_LOOP": use_loop, "JNZ": jnz})
    for k in ("ConstantRegister", "VirtualOp", "JumpType", "ControlFlowOp", "KnownRegValue", "KnownValues", "ResetKnown",
              "VirtualImmediate06", "VirtualImmediate12", "VirtualImmediate18", "VirtualImmediate24"):
        rep[k] = "pub " + re.sub(r"^pub(\([a-z]+\))?\s+", "", rep[k])
    rep["VirtualOp"] = filter_enum(rep["VirtualOp"], KEEP, rewrites)
    for n in ("def_registers", "def_const_registers", "has_side_effect", "use_registers_mut"):
        rep["vop_" + n] = filter_match_fn(rep["vop_" + n], fr["m_" + n], KEEP, rewrites)
    # R9: table view of def_registers / def_const_registers -- the same match, returning the Vec it builds before `.into_iter().collect()`
    for n in ("def_registers", "def_const_registers"):
        t = rep["vop_" + n]
        t = vf.rewrite_once(t, r"fn %s\(&self\) -> BTreeSet<&VirtualRegister>" % n, "fn %s_table(&self) -> Vec<&VirtualRegister>" % n, "R9", rewrites, regex=True)
        t = vf.rewrite_once(t, r"\)\s*\.into_iter\(\)\s*\.collect\(\)", ")", "R9", rewrites, regex=True)
        rep["vop_" + n + "_table"] = t
    for k in list(rep):
        if k.startswith("CONST_"):
            rep[k] = re.sub(r"^pub\(crate\)", "pub", rep[k])
    hs, obs = [], []
    for op in OPS3:
        z = UFSTUBS.get(op, "")
        hs.append("#[kani::proof] #[kani::unwind(7)] #[kani::stub(KnownValues::remove_reg_and_dependents, spec_remove_reg_and_dependents)] #[kani::stub(ResetKnown::apply, spec_apply)] #[kani::stub(VirtualOp::has_side_effect, spec_has_side_effect)] %sfn step_%s() { check(VirtualOp::%s(any_writable(), any_readable(), any_readable()), %s) }" % (z, op.lower(), op, "true" if op in ("EXP", "MLOG") else "false"))
        obs.append(vf.Ob("step_%s" % op.lower(), "C07", panic_prop="C17",
                         what="constant_propagate on %s: rewritten op has the same VM outcome (value, $of, $err, panic) for every register file and $flag; every fact kept is true" % op))
    for op in ("NOT", "MOVE"):
        hs.append("#[kani::proof] #[kani::unwind(7)] #[kani::stub(KnownValues::remove_reg_and_dependents, spec_remove_reg_and_dependents)] #[kani::stub(ResetKnown::apply, spec_apply)] #[kani::stub(VirtualOp::has_side_effect, spec_has_side_effect)] fn step_%s() { check(VirtualOp::%s(any_writable(), any_readable()), false) }" % (op.lower(), op))
        obs.append(vf.Ob("step_%s" % op.lower(), "C07", panic_prop="C17", what="constant_propagate on %s: same VM outcome; facts kept are true" % op))
    hs.append("#[kani::proof] #[kani::unwind(7)] #[kani::stub(KnownValues::remove_reg_and_dependents, spec_remove_reg_and_dependents)] #[kani::stub(ResetKnown::apply, spec_apply)] #[kani::stub(VirtualOp::has_side_effect, spec_has_side_effect)] fn step_movi() { let i: u32 = kani::any(); kani::assume(i as u64 <= compiler_constants::EIGHTEEN_BITS); "
              "check(VirtualOp::MOVI(any_writable(), VirtualImmediate18 { value: i }), false) }")
    obs.append(vf.Ob("step_movi", "C07", panic_prop="C17", what="constant_propagate on MOVI (incl. MOVI->NOOP): same VM outcome; facts kept are true"))
    for n, w in (("uf_facts_mul", "checked_mul/128-bit product: relation, commutativity, zero and one laws"), ("uf_facts_div_rem", "x/1, x%1, zero divisor gives None (checked_div/rem are `if b == 0 {None} else {Some(a / b)}` by definition in std)"), ("uf_facts_div_zero_left", "0/x, 0%x"),
                 ("uf_facts_pow", "x^0, x^1, 1^e, 0^e of overflowing_pow and checked_pow")):
        obs.append(vf.Ob(n, "C07", panic_prop="C17", what="facts assumed of the uninterpreted arithmetic hold of the real std operations: " + w))
    obs.append(vf.Ob("apply_on_jump", "C07", panic_prop="C17", what="ResetKnown::Defs on a Jump pseudo-op removes only $of/$err"))
    if tier == "thorough":   # 15 min alone on an idle machine: too close to the quick tier's per-harness limit
        hs.append("#[kani::proof] #[kani::unwind(7)] #[kani::stub(KnownValues::remove_reg_and_dependents, spec_remove_reg_and_dependents)] #[kani::stub(ResetKnown::apply, spec_apply)] #[kani::stub(VirtualOp::has_side_effect, spec_has_side_effect)] fn step_jnz() { check_jnz() }")
        obs.append(vf.Ob("step_jnz", "C07", panic_prop="C17", what="constant_propagate on `JNZ reg LABEL`: NOOP iff reg == 0, unconditional iff reg != 0; jump-target count decremented exactly when the jump disappears; facts kept are true"))
    hs.append("#[kani::proof] #[kani::unwind(33)] fn def_tables() { def_tables_check() }")
    obs.append(vf.Ob("def_tables", "C07", panic_prop="C17", what="the def_registers / def_const_registers tables (real match arms) give [dst] and [$of,$err] for every ALU-class opcode, [] and [$of,$err] for NOOP"))
    STUBS2 = "#[kani::stub(VirtualOp::def_registers, def_registers_by_insert)] #[kani::stub(VirtualOp::def_const_registers, def_const_registers_by_insert)] "
    if tier == "thorough":
        for g in range(4):
            lo, hi = g * 8, min(31, g * 8 + 8)
            hs.append("#[kani::proof] #[kani::unwind(9)] %sfn hse_group%d() { has_side_effect_refines_contract(%d, %d) }" % (STUBS2, g, lo, hi))
            obs.append(vf.Ob("hse_group%d" % g, "C07", panic_prop="C17", what="VirtualOp::has_side_effect (real body over the real def table) == contract: true iff dst is a constant register; opcodes #%d..%d" % (lo, hi - 1)))
    for k, v in rep.items():
        src = src.replace("@%s@" % k, v)
    src = src.replace("@HARNESSES@", "\n    ".join(hs))
    left = re.findall(r"@[A-Za-z_0-9]+@", src)
    if left:
        raise vf.Undecided("c07 template placeholders left: %s" % left[:5])
    u = vf.KaniUnit("c07_constprop", {"src/lib.rs": src, "src/vm_alu.rs": open(vf.ROOT + "/spec/vm_alu.rs").read()}, obs,
                    deps={"either": "1"}, timeout_s=1800 if tier == "quick" else 3600, jobs=8 if tier == "quick" else 5, auto_files=[CP])
    u.fragments = [vf.frag_record(v) for k, v in fr.items()]
    u.rewrites = rewrites + [{"rule": "R1", "before": "derives/visibility of extracted enums, structs, consts", "after": "plain derives, pub", "times": 15},
                             {"rule": "slice", "before": "use-register loop (loop #2 of constant_propagate) and the JNZ rewrite (text between that loop and the macro)", "after": "copied by byte offsets", "times": 2}]
    u.assumptions = [
        "VirtualRegister::Virtual carries a u8 name instead of a String",
        "rustc_hash::FxHashMap replaced by an association list with the same API subset (get/insert/remove/extract_if/retain/clear/contains_key)",
        "Op reduced to {opcode, owning_span}; Span, CompileError, Label, DataId are carriers",
        "register file of the harness: 2 virtual registers + $zero,$one,$of,$err,FuncArg0 (the only bound of this unit; covers every aliasing pattern of dst/l/r and Eq chains of length 2)",
        "MROO (checked_nth_root, f64::powf) is not claimed and stubbed to None",
        "MUL/DIV/MOD/EXP/MLOG harnesses: u64::checked_{mul,div,rem,pow,ilog} and the oracle's primitives are one uninterpreted function each (contract stubs) known only to satisfy the zero/one/commutativity facts, which uf_facts_* prove of the real std operations; assumed without proof: checked_pow(a,e)=Some(v) <=> overflowing_pow(a,e)=(v,false), checked_ilog = ilog where defined",
        "FuelVM ALU oracle spec/vm_alu.rs",
        "ASSUMED contracts (spec functions in the unit, used by the step obligations through -Z stubbing, NOT discharged: CBMC does not finish on std's BTreeSet bulk build / heap worklist -- 43 GB resp. >15 min per instance): KnownValues::remove_reg_and_dependents == spec_remove_reg_and_dependents; ResetKnown::apply == spec_apply",
        "has_side_effect's contract is assumed in the quick tier and discharged in the thorough tier (hse_group*), over BTreeSets built by insertion instead of collect()",
    ]
    u.heavy = True
    return [u]
