"""C20/C21 units: Forc.lock line codec (forc-pkg/src/lock.rs)."""
import vf

LF = "forc-pkg/src/lock.rs"

ENV = r'''
#![allow(unused, dead_code, unused_macros, clippy::all)]
use std::str::FromStr;
// ---------------- environment ----------------
pub mod anyhow {
    #[derive(Debug)] pub struct Error;
    pub type Result<T> = core::result::Result<T, Error>;
}
/// shim of anyhow::anyhow!: the message text is irrelevant to the property (R6 without touching the call sites)
macro_rules! anyhow { ($($t:tt)*) => { crate::anyhow::Error } }
pub mod fuel_tx {
    /// shim of fuel_tx::Salt: 32 bytes; from_str is total and decided by a nondeterministic oracle (its Display/FromStr pair is assumed correct)
    #[derive(Debug, Clone, Copy, PartialEq)] pub struct Salt(pub [u8; 32]);
    impl core::str::FromStr for Salt { type Err = &'static str;
        fn from_str(s: &str) -> Result<Salt, &'static str> {
            #[cfg(kani)] { if kani::any() { return Ok(Salt([kani::any(); 32])); } }
            Err("bad salt") } }
}
// ---------------- extracted verbatim from forc-pkg/src/lock.rs ----------------
@ParsedPkgLine@
@parse_pkg_dep_line@

#[cfg(kani)]
mod h {
    use super::*;
    /// alphabet: the delimiters of the line grammar plus one ordinary letter; `sel` is 2 symbolic bits per byte
    fn pick(sel: u8) -> u8 { match sel & 3 { 0 => b'(', 1 => b')', 2 => b' ', _ => b'a' } }
    @HARNESSES@
}
'''


def harness(n):
    decl = "".join("pick(kani::any()), " for _ in range(n))
    return ("#[kani::proof] #[kani::unwind(%d)] fn parse_line_len%d() { let b: [u8; %d] = [%s]; "
            "let s = unsafe { core::str::from_utf8_unchecked(&b) }; let r = parse_pkg_dep_line(s); "
            "kani::cover!(r.is_ok()); %s }" % (n + 3, n, n, decl, "kani::cover!(r.is_err());" if n >= 1 else ""))


def build(tier):
    fr = vf.extract([
        {"id": "ParsedPkgLine", "file": LF, "locator": {"kind": "item", "item": "type", "name": "ParsedPkgLine"}},
        {"id": "parse_pkg_dep_line", "file": LF, "locator": {"kind": "fn", "name": "parse_pkg_dep_line"}},
    ])
    maxlen = 4 if tier == "quick" else 5
    hs, obs = [], []
    for n in range(0, maxlen + 1):
        hs.append(harness(n))
        obs.append(vf.Ob("parse_line_len%d" % n, "C21", complete=False,
                         bound="every line of exactly %d bytes over the alphabet { '(', ')', ' ', 'a' } (concrete length, symbolic content)" % n,
                         what="parse_pkg_dep_line returns Ok or Err and never panics (slice indices, `len() - 1`)"))
    src = ENV.replace("@ParsedPkgLine@", fr["ParsedPkgLine"]["text"]).replace("@parse_pkg_dep_line@", fr["parse_pkg_dep_line"]["text"]).replace("@HARNESSES@", "\n    ".join(hs))
    u = vf.KaniUnit("lock_parse_line", {"src/lib.rs": src}, obs, timeout_s=2400, jobs=3, auto_files=[LF])
    u.fragments = [vf.frag_record(fr[k]) for k in fr]
    u.rewrites = [{"rule": "R0", "before": "parse_pkg_dep_line verbatim; anyhow! bound to a unit-error macro", "after": "", "times": 1}]
    u.assumptions = ["fuel_tx::Salt::from_str is total (returns Ok or Err for every string); toml deserialisation is total (third party)",
                     "bytes outside the 4-letter alphabet behave like 'a' (the function only compares with '(' , ')' and whitespace); multi-byte characters are not explored"]
    u.heavy = True
    return [u]
