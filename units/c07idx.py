"""C07/C17 unit: the constant-tracking MUL arm of const_indexing_aggregates_function (const_indexed_aggregates.rs)."""
import vf

CF = "sway-core/src/asm_generation/fuel/optimizations/const_indexed_aggregates.rs"
HOST = {"kind": "impl_fn", "self_ty": "AbstractInstructionSet", "name": "const_indexing_aggregates_function"}

ENV = r'''
#![allow(unused, dead_code, clippy::all)]
// ---------------- environment (hand-written: the items below are LOCAL to the host function and cannot be extracted by item locators) ----------------
#[derive(PartialEq, Eq, Clone, Debug)] pub enum VirtualRegister { Virtual(u8) }
#[derive(PartialEq, Eq, Clone, Debug)] pub struct VRegDef { pub reg: VirtualRegister, pub ver: u32 }
/// copy of the function-local enum RegContents
#[derive(Debug, PartialEq, Eq)] pub enum RegContents { Constant(u64), BaseOffset(VRegDef, u64) }
/// 3-slot map with the API subset the arm uses
pub struct Map<V> { pub slots: [Option<(VirtualRegister, V)>; 3] }
impl<V> Map<V> {
    pub fn get(&self, k: &VirtualRegister) -> Option<&V> { for s in self.slots.iter() { if let Some((a, b)) = s { if a == k { return Some(b); } } } None }
    pub fn insert(&mut self, k: VirtualRegister, v: V) { for s in self.slots.iter_mut() { if matches!(s, Some((a, _)) if *a == k) { *s = Some((k, v)); return; } }
                                                         for s in self.slots.iter_mut() { if s.is_none() { *s = Some((k, v)); return; } } unreachable!() }
    pub fn remove(&mut self, k: &VirtualRegister) { for s in self.slots.iter_mut() { if matches!(s, Some((a, _)) if a == k) { *s = None; } } }
}
pub static mut NEW_DEFS: u32 = 0;
pub fn record_new_def(_latest_version: &mut Map<u32>, _reg: &VirtualRegister) { unsafe { NEW_DEFS += 1; } }
// ---------------- extracted verbatim: body of the arm `VirtualOp::MUL(dest, opd1, opd2) => {..}` ----------------
pub fn mul_arm(reg_contents: &mut Map<RegContents>, latest_version: &mut Map<u32>, dest: &mut VirtualRegister, opd1: &mut VirtualRegister, opd2: &mut VirtualRegister) {
    let mut latest_version = latest_version;
    @MUL_ARM@
}
#[cfg(kani)]
mod h {
    use super::*;
    #[kani::proof] #[kani::solver(z3)]
    fn mul_tracks_vm_result() {
        let (c1, c2): (u64, u64) = (kani::any(), kani::any());
        let (mut d, mut a, mut b) = (VirtualRegister::Virtual(0), VirtualRegister::Virtual(1), VirtualRegister::Virtual(2));
        let mut rc = Map { slots: [Some((a.clone(), RegContents::Constant(c1))), Some((b.clone(), RegContents::Constant(c2))), None] };
        let mut lv = Map::<u32> { slots: [None, None, None] };
        mul_arm(&mut rc, &mut lv, &mut d, &mut a, &mut b);
        let fits = (c1 as u128) * (c2 as u128) <= u64::MAX as u128;
        kani::cover!(fits);
        kani::cover!(!fits);
        match rc.get(&d) {
            Some(RegContents::Constant(v)) => assert!(fits && *v as u128 == (c1 as u128) * (c2 as u128), "OB: register tracked as a constant the MUL instruction does not produce (the VM panics on overflow)"),
            Some(_) => assert!(false, "OB: product of two constants tracked as a base+offset"),
            None => {}
        }
        assert!(unsafe { NEW_DEFS } == 1, "OB: a definition of the destination must be recorded exactly once");
    }
}
'''


def build(tier):
    fr = vf.extract([{"id": "m", "file": CF, "locator": {"kind": "in_fn", "fn": HOST, "what": "match", "scrutinee": "op", "nth": 0}}])["m"]
    arm = [a for a in fr["arms"] if a["pat"].replace(" ", "") == "VirtualOp::MUL(dest,opd1,opd2)"]
    if len(arm) != 1:
        raise vf.Undecided("const_indexing_aggregates_function: MUL arm not found")
    body = arm[0]["body"]
    src = ENV.replace("@MUL_ARM@", body.replace("&mut latest_version", "latest_version"))
    obs = [vf.Ob("mul_tracks_vm_result", "C07", panic_prop="C17",
                 what="const_indexing_aggregates_function, MUL of two tracked constants: never panics; the destination is tracked as Constant(v) only if v is the product the VM computes (no overflow)")]
    u = vf.KaniUnit("c07_constidx", {"src/lib.rs": src}, obs, timeout_s=300, jobs=2)
    u.fragments = [dict(vf.frag_record(fr), note="arm `VirtualOp::MUL(dest, opd1, opd2)` at line %d" % arm[0]["line"])]
    u.rewrites = [{"rule": "R5", "before": "match arm VirtualOp::MUL", "after": "fn mul_arm", "times": 1},
                  {"rule": "R1", "before": "&mut latest_version (a local in the host)", "after": "latest_version (a &mut parameter)", "times": body.count("&mut latest_version")}]
    u.assumptions = ["RegContents/VRegDef/record_new_def are function-local items copied by hand into the environment; FxHashMap replaced by a 3-slot map"]
    return [u]


# ======================================================================================================
# U7.idx-inv: the retain_mut closure as a transfer function -- the tracking invariant is preserved by every op
# ======================================================================================================
from units.c07 import item, ifn, filter_enum, VO, VI, VR, CC, ML  # noqa: E402
import re  # noqa: E402

KEEP_INV = ["ADD", "ADDI", "MUL", "MOVI", "LW", "SW", "MOVE"]

ENV_INV = r"""
#![allow(unused, dead_code, non_snake_case, unreachable_patterns, clippy::all)]
// ---------------- environment (hand-written shims, listed as assumptions) ----------------
pub mod either { pub use ::either::Either; }
/// the paths the real file imports from resolve here too
pub mod asm_lang { pub use super::{ControlFlowOp, JumpType, Label, Op, OrganizationalOp, VirtualImmediate12, VirtualImmediate18, VirtualOp, VirtualRegister, ConstantRegister}; }
#[derive(Clone, Debug, PartialEq)] pub struct Span;
impl Span { pub fn dummy() -> Span { Span } }
#[derive(Debug)] pub enum CompileError { Immediate12TooLarge { val: u64, span: Span }, Immediate18TooLarge { val: u64, span: Span } }
/// shim of VirtualRegister: the virtual register *name* is a small integer instead of a String
#[derive(Hash, PartialEq, Eq, Debug, Clone)] pub enum VirtualRegister { Virtual(u8), Constant(ConstantRegister) }
/// shim of asm_lang::Label (a usize newtype)
#[derive(Clone, Copy, Debug, PartialEq, Eq)] pub struct Label(pub usize);
pub type OrganizationalOp = ControlFlowOp<VirtualRegister>;
/// shim of asm_lang::Op: `comment` and `owning_span` are not read by the closure
pub struct Op { pub opcode: either::Either<VirtualOp, OrganizationalOp> }
/// shim of DataSection: only consulted by the LoadDataId arm, which is dropped (R8)
pub struct DataSection;
pub mod compiler_constants {
    @CONST_EIGHTEEN_BITS@
    @CONST_TWELVE_BITS@
}
/// shim of rustc_hash::FxHashMap: 3 slots (one per register of the harness), the API subset the pass uses
pub struct FxHashMap<K, V> { pub slots: [Option<(K, V)>; 3] }
pub struct EntryShim<'a, K, V> { map: &'a mut FxHashMap<K, V>, key: K }
impl<K: PartialEq + Clone, V> FxHashMap<K, V> {
    pub fn get(&self, k: &K) -> Option<&V> { for s in self.slots.iter() { if let Some((a, b)) = s { if a == k { return Some(b); } } } None }
    pub fn get_mut(&mut self, k: &K) -> Option<&mut V> { for s in self.slots.iter_mut() { if let Some((a, b)) = s { if &*a == k { return Some(b); } } } None }
    pub fn insert(&mut self, k: K, v: V) -> Option<V> {
        for s in self.slots.iter_mut() { if matches!(s, Some((a, _)) if *a == k) { return s.replace((k, v)).map(|e| e.1); } }
        for s in self.slots.iter_mut() { if s.is_none() { *s = Some((k, v)); return None; } }
        unreachable!("map shim capacity exceeded")
    }
    pub fn remove(&mut self, k: &K) -> Option<V> { for s in self.slots.iter_mut() { if matches!(s, Some((a, _)) if a == k) { return s.take().map(|e| e.1); } } None }
    pub fn clear(&mut self) { for s in self.slots.iter_mut() { *s = None; } }
    pub fn entry(&mut self, key: K) -> EntryShim<'_, K, V> { EntryShim { map: self, key } }
}
impl<'a, K: PartialEq + Clone, V> EntryShim<'a, K, V> {
    pub fn and_modify<F: FnOnce(&mut V)>(self, f: F) -> Self { if let Some(v) = self.map.get_mut(&self.key) { f(v); } self }
    pub fn or_insert(self, default: V) -> &'a mut V {
        if self.map.get(&self.key).is_none() { self.map.insert(self.key.clone(), default); }
        self.map.get_mut(&self.key).unwrap()
    }
}
// ---------------- extracted verbatim ----------------
#[derive(Hash, PartialEq, Eq, Debug, Clone)]
@ConstantRegister@
#[derive(Clone, Debug)]
@JumpType@
#[derive(Clone, Debug)]
@ControlFlowOp@
#[derive(Clone, Debug)]
@VirtualImmediate12@
impl VirtualImmediate12 {
    @imm12_try_new@
    @imm12_new@
    @imm12_value@
}
#[derive(Clone, Debug)]
@VirtualImmediate18@
impl VirtualImmediate18 {
    @imm18_value@
}
#[derive(Clone, Debug)]
@VirtualOp@
// items declared inside const_indexing_aggregates_function (in_fn item locator), verbatim
@VRegDef@
@RegContents@
@record_new_def@
@get_def_version@
@process_add@
/// R5 lifting + R8: the closure passed to `self.ops.retain_mut(|op| {..})`, verbatim, as a function of the two tables
/// it captures; the arms of unmodelled VirtualOp variants are dropped from the inner match
pub fn step(mut reg_contents: &mut FxHashMap<VirtualRegister, RegContents>, mut latest_version: &mut FxHashMap<VirtualRegister, u32>,
            data_section: &DataSection, @OPPARAM@: &mut Op) -> bool @CLOSURE_BODY@

#[cfg(kani)]
mod h {
    use super::*;
    use super::either::Either;
    type RC = FxHashMap<VirtualRegister, RegContents>;
    type LV = FxHashMap<VirtualRegister, u32>;
    /// the harness's register file: two virtual registers and the reserved call-return-value register
    fn reg(i: u8) -> VirtualRegister { if i % 3 == 2 { VirtualRegister::Constant(ConstantRegister::CallReturnValue) } else { VirtualRegister::Virtual(i % 3) } }
    fn ix(r: &VirtualRegister) -> usize { match r { VirtualRegister::Virtual(i) => (*i % 2) as usize, VirtualRegister::Constant(_) => 2 } }
    fn version(lv: &LV, r: &VirtualRegister) -> u32 { match lv.get(r) { Some(v) => *v, None => 0 } }
    /// THE TRACKING INVARIANT: what the tables say about a register is true of the machine state `val`
    ///  - Constant(c): the register holds c
    ///  - BaseOffset(b@v, off): v is not from the future; and if b has not been redefined since (its version is still v), the register holds val[b] + off
    fn inv(rc: &RC, lv: &LV, val: &[u64; 3]) -> bool {
        let mut ok = true;
        let mut r = 0u8;
        while r < 3 {
            match rc.get(&reg(r)) {
                Some(RegContents::Constant(c)) => { ok = ok && val[r as usize] == *c; }
                Some(RegContents::BaseOffset(b, off)) => {
                    let cur = version(lv, &b.reg);
                    ok = ok && b.ver <= cur;
                    if b.ver == cur { ok = ok && (val[ix(&b.reg)] as u128 + *off as u128 == val[r as usize] as u128); }
                }
                None => {}
            }
            r += 1;
        }
        ok
    }
    fn any_reg() -> VirtualRegister { reg(kani::any::<u8>() % 3) }
    fn any_tables() -> (RC, LV) {
        let mut rc = RC { slots: [None, None, None] };
        let mut lv = LV { slots: [None, None, None] };
        let mut r = 0u8;
        while r < 3 {
            match kani::any::<u8>() % 3 {
                0 => {}
                1 => { rc.slots[r as usize] = Some((reg(r), RegContents::Constant(kani::any()))); }
                _ => { rc.slots[r as usize] = Some((reg(r), RegContents::BaseOffset(VRegDef { reg: any_reg(), ver: kani::any::<u32>() % 8 }, kani::any()))); }
            }
            if kani::any() { lv.slots[r as usize] = Some((reg(r), kani::any::<u32>() % 8)); }
            r += 1;
        }
        (rc, lv)
    }
    /// address of a word access `base + 8 * imm` (u128: no wrap)
    fn word_addr(val: &[u64; 3], base: &VirtualRegister, imm: &VirtualImmediate12) -> u128 { val[ix(base)] as u128 + 8 * imm.value() as u128 }

    fn check(vop: VirtualOp) {
        let (mut rc, mut lv) = any_tables();
        let val: [u64; 3] = kani::any();
        kani::assume(inv(&rc, &lv, &val));
        let before = vop.clone();
        let mut op = Op { opcode: Either::Left(vop) };
        let retain = step(&mut rc, &mut lv, &DataSection, &mut op);
        let after = match &op.opcode { Either::Left(v) => v.clone(), Either::Right(_) => { assert!(false, "OB: the instruction is replaced by an organizational op"); return; } };
        // the instruction that will run (if any) must do what the original did, in the state `val`
        let mut post = val;
        match (&before, &after) {
            (VirtualOp::ADD(d, a, b), VirtualOp::ADD(d2, a2, b2)) => {
                assert!(retain && d == d2 && a == a2 && b == b2, "OB: an ADD is removed or rewritten");
                let s = val[ix(a)] as u128 + val[ix(b)] as u128; kani::assume(s <= u64::MAX as u128);   // otherwise the VM panics: no successor state
                post[ix(d)] = s as u64;
            }
            (VirtualOp::ADDI(d, a, i), VirtualOp::ADDI(d2, a2, i2)) => {
                assert!(retain && d == d2 && a == a2 && i.value() == i2.value(), "OB: an ADDI is removed or rewritten");
                let s = val[ix(a)] as u128 + i.value() as u128; kani::assume(s <= u64::MAX as u128);
                post[ix(d)] = s as u64;
            }
            (VirtualOp::MUL(d, a, b), VirtualOp::MUL(d2, a2, b2)) => {
                assert!(retain && d == d2 && a == a2 && b == b2, "OB: a MUL is removed or rewritten");
                let s = (val[ix(a)] as u128) * (val[ix(b)] as u128); kani::assume(s <= u64::MAX as u128);
                post[ix(d)] = s as u64;
            }
            (VirtualOp::MOVI(d, i), VirtualOp::MOVI(d2, i2)) => {
                assert!(retain && d == d2 && i.value() == i2.value(), "OB: a MOVI is removed or rewritten");
                post[ix(d)] = i.value() as u64;
            }
            (VirtualOp::LW(d, a, i), VirtualOp::LW(d2, a2, i2)) => {
                assert!(retain && d == d2, "OB: a LW is removed or loads into another register");
                assert!(word_addr(&val, a, i) == word_addr(&val, a2, i2), "OB: the rewritten LW reads a different address than the original");
                post[ix(d)] = kani::any();   // whatever memory holds
            }
            (VirtualOp::SW(a, s, i), VirtualOp::SW(a2, s2, i2)) => {
                assert!(retain && s == s2, "OB: a SW is removed or stores another register");
                assert!(word_addr(&val, a, i) == word_addr(&val, a2, i2), "OB: the rewritten SW writes a different address than the original");
            }
            (VirtualOp::MOVE(d, s), VirtualOp::MOVE(d2, s2)) => {
                assert!(d == d2 && s == s2, "OB: a MOVE is rewritten");
                if retain { post[ix(d)] = val[ix(s)]; }
                else { assert!(val[ix(d)] == val[ix(s)], "OB: a MOVE is removed although the destination does not already hold the source's value"); }
            }
            _ => assert!(false, "OB: the instruction is replaced by one of a different kind"),
        }
        assert!(inv(&rc, &lv, &post), "OB: after the step the tables claim something about a register that is not true of the machine state (stale constant / base / version)");
        std::mem::forget((rc, lv, op, before, after));
    }
    /// organizational ops: what the machine state can be when control reaches the op AFTER this one
    ///  - Label: control may arrive from anywhere -> every register arbitrary
    ///  - unconditional jump, JumpToAddr, ReturnFromCall: control never reaches the next op -> nothing to show
    ///  - conditional jump falling through, Comment, PushAll, offset placeholders: registers untouched
    ///  - call: the callee returns with the reserved registers ($$retv here) overwritten; virtual registers are saved and restored around it
    ///  - PopAll: the general registers are restored from the stack -> virtual registers arbitrary
    #[kani::proof] #[kani::unwind(5)]
    fn org_ops() {
        let (mut rc, mut lv) = any_tables();
        let val: [u64; 3] = kani::any();
        kani::assume(inv(&rc, &lv, &val));
        let l = Label(kani::any::<u8>() as usize % 3);
        let mut post = val;
        let o: OrganizationalOp = match kani::any::<u8>() % 9 {
            0 => { post = kani::any(); OrganizationalOp::Label(l) }
            1 => OrganizationalOp::Comment,
            2 => { kani::assume(false); OrganizationalOp::Jump { to: l, type_: JumpType::Unconditional } }
            3 => OrganizationalOp::Jump { to: l, type_: JumpType::NotZero(any_reg()) },
            4 => { post[2] = kani::any(); OrganizationalOp::Jump { to: l, type_: JumpType::Call } }
            5 => OrganizationalOp::PushAll(l),
            6 => { post[0] = kani::any(); post[1] = kani::any(); OrganizationalOp::PopAll(l) }
            7 => OrganizationalOp::ConfigurablesOffsetPlaceholder,
            _ => OrganizationalOp::DataSectionOffsetPlaceholder,
        };
        let mut op = Op { opcode: Either::Right(o) };
        let retain = step(&mut rc, &mut lv, &DataSection, &mut op);
        assert!(retain, "OB: an organizational op (label, jump, ..) is removed");
        assert!(inv(&rc, &lv, &post), "OB: facts about registers survive an organizational op after which they need not hold (label reached from elsewhere, call clobbering reserved registers, POPA)");
        std::mem::forget((rc, lv, op));
    }
    @HARNESSES@
}
"""

GEN = {
    "ADD": "VirtualOp::ADD(any_reg(), any_reg(), any_reg())",
    "ADDI": "VirtualOp::ADDI(any_reg(), any_reg(), VirtualImmediate12 { value: kani::any::<u16>() % 4096 })",
    "MUL": "VirtualOp::MUL(any_reg(), any_reg(), any_reg())",
    "MOVI": "VirtualOp::MOVI(any_reg(), VirtualImmediate18 { value: kani::any::<u32>() % (1 << 18) })",
    "LW": "VirtualOp::LW(any_reg(), any_reg(), VirtualImmediate12 { value: kani::any::<u16>() % 4096 })",
    "SW": "VirtualOp::SW(any_reg(), any_reg(), VirtualImmediate12 { value: kani::any::<u16>() % 4096 })",
    "MOVE": "VirtualOp::MOVE(any_reg(), any_reg())",
}


def build_inv(tier):
    def loc_item(kind, name):
        return {"kind": "in_fn", "fn": HOST, "what": "item", "item": kind, "name": name}
    specs = [
        {"id": "host", "file": CF, "locator": HOST},
        {"id": "m", "file": CF, "locator": {"kind": "in_fn", "fn": HOST, "what": "match", "scrutinee": "op", "nth": 0}},
        {"id": "VRegDef", "file": CF, "locator": loc_item("struct", "VRegDef")},
        {"id": "RegContents", "file": CF, "locator": loc_item("enum", "RegContents")},
        {"id": "record_new_def", "file": CF, "locator": loc_item("fn", "record_new_def")},
        {"id": "get_def_version", "file": CF, "locator": loc_item("fn", "get_def_version")},
        {"id": "process_add", "file": CF, "locator": loc_item("fn", "process_add")},
        {"id": "VirtualOp", "file": VO, "locator": item("enum", "VirtualOp")},
        {"id": "ConstantRegister", "file": VR, "locator": item("enum", "ConstantRegister")},
        {"id": "JumpType", "file": ML, "locator": item("enum", "JumpType")},
        {"id": "ControlFlowOp", "file": ML, "locator": item("enum", "ControlFlowOp")},
        {"id": "VirtualImmediate12", "file": VI, "locator": item("struct", "VirtualImmediate12")},
        {"id": "VirtualImmediate18", "file": VI, "locator": item("struct", "VirtualImmediate18")},
        {"id": "imm12_try_new", "file": VI, "locator": ifn("VirtualImmediate12", "try_new", "-")},
        {"id": "imm12_new", "file": VI, "locator": ifn("VirtualImmediate12", "new", "-")},
        {"id": "imm12_value", "file": VI, "locator": ifn("VirtualImmediate12", "value", "-")},
        {"id": "imm18_value", "file": VI, "locator": ifn("VirtualImmediate18", "value", "-")},
        {"id": "CONST_EIGHTEEN_BITS", "file": CC, "locator": item("const", "EIGHTEEN_BITS")},
        {"id": "CONST_TWELVE_BITS", "file": CC, "locator": item("const", "TWELVE_BITS")},
    ]
    fr = vf.extract(specs)
    rewrites = []
    rep = dict((k, v["text"]) for k, v in fr.items())
    host, m = fr["host"], fr["m"]
    cls = [c for c in host["closures"] if host["text"][:c["start"]].rstrip().endswith(".retain_mut(") and c["body_is_block"] and len(c["params"]) == 1]
    if len(cls) != 1:
        raise vf.Undecided("const_indexing_aggregates_function: expected exactly one `self.ops.retain_mut(|op| {..})` closure, found %d" % len(cls))
    c = cls[0]
    body = host["text"][c["body_start"]:c["body_end"]]
    have = {re.match(r"VirtualOp::(\w+)", a["pat"]).group(1) for a in m["arms"] if a["pat"].startswith("VirtualOp::")}
    missing = [k for k in KEEP_INV if k not in have]
    if missing:
        raise vf.Undecided("const_indexing_aggregates_function: no arm for %s in the per-op match" % ", ".join(missing))
    if body.count(m["text"]) != 1:
        raise vf.Undecided("const_indexing_aggregates_function: the per-op match is not (once) inside the retain_mut closure")
    # R8: keep the arms of the modelled variants; the others (LoadDataId: needs the data section; `_`: BTreeSet of def registers) are dropped
    pieces, last, mt = [], 0, m["text"]
    dropped = []
    for arm in m["arms"]:
        mm = re.match(r"VirtualOp::(\w+)", arm["pat"])
        keep = bool(mm) and mm.group(1) in KEEP_INV
        pieces.append(mt[last:arm["start"]])
        if keep:
            pieces.append(mt[arm["start"]:arm["end"]])
            last = arm["end"]
        else:
            dropped.append(arm["pat"])
            e = arm["end"]
            cm = re.match(r"\s*,", mt[e:])
            last = e + (cm.end() if cm else 0)
    pieces.append(mt[last:])
    rep["CLOSURE_BODY"] = body.replace(mt, "".join(pieces))
    rep["OPPARAM"] = c["params"][0]
    rewrites.append({"rule": "R8", "before": "per-op match with %d arms" % len(m["arms"]), "after": "arms kept: %s; dropped: %s" % (", ".join(KEEP_INV), ", ".join(dropped)), "times": 1})
    rep["VirtualOp"] = filter_enum(rep["VirtualOp"], set(KEEP_INV), rewrites)
    for k in ("VirtualOp", "VirtualImmediate12", "VirtualImmediate18", "ConstantRegister", "JumpType", "ControlFlowOp"):
        rep[k] = "pub " + re.sub(r"^pub(\([a-z]+\))?\s+", "", rep[k])
    rep["VirtualImmediate12"] = rep["VirtualImmediate12"].replace("value: u16", "pub value: u16")
    rep["VirtualImmediate18"] = rep["VirtualImmediate18"].replace("value: u32", "pub value: u32")
    hs, obs = [], []
    # MUL: 64x64->128 multiplication under SAT takes ~14 min (z3 crashes CBMC's SMT back end on this unit); thorough tier only.
    # In the quick tier the MUL arm is covered by c07_constidx/mul_tracks_vm_result.
    for k in [x for x in KEEP_INV if tier != "quick" or x != "MUL"]:
        hs.append("#[kani::proof] #[kani::unwind(5)] fn arm_%s() { check(%s); }" % (k.lower(), GEN[k]))
        obs.append(vf.Ob("arm_%s" % k.lower(), "C07", panic_prop="C17",
                         what="const_indexing_aggregates_function, retain_mut closure on a %s: from every table/machine state satisfying the tracking invariant, the (possibly rewritten / removed) instruction does what the original did and the invariant holds afterwards; registers {v0, v1, $$retv}, every register choice" % k))
    obs.append(vf.Ob("org_ops", "C07", panic_prop="C17",
                     what="const_indexing_aggregates_function, retain_mut closure on an organizational op: the op is kept and no fact survives that need not hold at the next op (label: arbitrary state; call: $$retv clobbered; POPA: virtual registers restored; conditional jump / comment / PUSHA: state unchanged)"))
    src = ENV_INV
    for k, v in rep.items():
        if isinstance(v, str):
            src = src.replace("@%s@" % k, v)
    src = src.replace("@HARNESSES@", "\n    ".join(hs))
    u = vf.KaniUnit("c07_constidx_inv", {"src/lib.rs": src}, obs, deps={"either": "1"}, timeout_s=1800, jobs=8, auto_files=[CF, VI])
    u.fragments = [vf.frag_record(fr[k]) for k in fr if k != "m"]
    u.rewrites = rewrites + [{"rule": "R5", "before": "closure `|op| {..}` passed to self.ops.retain_mut", "after": "fn step(reg_contents, latest_version, data_section, op) -> bool with the closure body verbatim (captured tables become &mut parameters)", "times": 1}]
    u.assumptions = [
        "the tracking invariant (fn inv) is mine: it is what makes the LW/SW rewrite and the MOVE removal sound; the pass states no invariant itself",
        "effects of organizational ops on the register file (fn org_ops) written by hand from the calling convention: a call clobbers reserved registers ($$retv) and preserves virtual registers (PUSHA/POPA in the callee); POPA rewrites the general registers; a label can be reached from elsewhere",
        "FxHashMap replaced by a 3-slot map (get/insert/remove/clear/entry.and_modify.or_insert); register file reduced to two virtual registers and $$retv; LoadDataId and the catch-all arm (def_registers: BTreeSet) are not modelled",
        "ADD/ADDI/MUL successor states exist only when the VM does not panic on overflow; LW: the loaded value is arbitrary, memory itself is not modelled (only the address computation base + 8*imm)",
    ]
    u.heavy = True
    return [u]
