"""C07/C17 unit: the constant-tracking MUL arm of const_indexing_aggregates_function (const_indexed_aggregates.rs)."""
import vf

CF = "sway-core/src/asm_generation/fuel/optimizations/const_indexed_aggregates.rs"
HOST = {"kind": "impl_fn", "self_ty": "AbstractInstructionSet", "name": "const_indexing_aggregates_function"}

ENV = r'''
#![allow(unused, dead_code, clippy::all)]
// ---------------- environment (hand-written: the items below are LOCAL to the host function and cannot be extracted by item locators) ----------------
#[derive(PartialEq, Eq, Clone, Debug)] pub enum VirtualRegister { Virtual(u8) }
#[derive(PartialEq, Eq, Clone, Debug)] pub struct VRegDef { pub reg: VirtualRegister, pub ver: u32 }
/// copy of the function-local enum RegContents
#[derive(Debug, PartialEq, Eq)] pub enum RegContents { Constant(u64), BaseOffset(VRegDef, u64) }
/// 3-slot map with the API subset the arm uses
pub struct Map<V> { pub slots: [Option<(VirtualRegister, V)>; 3] }
impl<V> Map<V> {
    pub fn get(&self, k: &VirtualRegister) -> Option<&V> { for s in self.slots.iter() { if let Some((a, b)) = s { if a == k { return Some(b); } } } None }
    pub fn insert(&mut self, k: VirtualRegister, v: V) { for s in self.slots.iter_mut() { if matches!(s, Some((a, _)) if *a == k) { *s = Some((k, v)); return; } }
                                                         for s in self.slots.iter_mut() { if s.is_none() { *s = Some((k, v)); return; } } unreachable!() }
    pub fn remove(&mut self, k: &VirtualRegister) { for s in self.slots.iter_mut() { if matches!(s, Some((a, _)) if a == k) { *s = None; } } }
}
pub static mut NEW_DEFS: u32 = 0;
pub fn record_new_def(_latest_version: &mut Map<u32>, _reg: &VirtualRegister) { unsafe { NEW_DEFS += 1; } }
// ---------------- extracted verbatim: body of the arm `VirtualOp::MUL(dest, opd1, opd2) => {..}` ----------------
pub fn mul_arm(reg_contents: &mut Map<RegContents>, latest_version: &mut Map<u32>, dest: &mut VirtualRegister, opd1: &mut VirtualRegister, opd2: &mut VirtualRegister) {
    let mut latest_version = latest_version;
    @MUL_ARM@
}
#[cfg(kani)]
mod h {
    use super::*;
    #[kani::proof] #[kani::solver(z3)]
    fn mul_tracks_vm_result() {
        let (c1, c2): (u64, u64) = (kani::any(), kani::any());
        let (mut d, mut a, mut b) = (VirtualRegister::Virtual(0), VirtualRegister::Virtual(1), VirtualRegister::Virtual(2));
        let mut rc = Map { slots: [Some((a.clone(), RegContents::Constant(c1))), Some((b.clone(), RegContents::Constant(c2))), None] };
        let mut lv = Map::<u32> { slots: [None, None, None] };
        mul_arm(&mut rc, &mut lv, &mut d, &mut a, &mut b);
        let fits = (c1 as u128) * (c2 as u128) <= u64::MAX as u128;
        kani::cover!(fits);
        kani::cover!(!fits);
        match rc.get(&d) {
            Some(RegContents::Constant(v)) => assert!(fits && *v as u128 == (c1 as u128) * (c2 as u128), "OB: register tracked as a constant the MUL instruction does not produce (the VM panics on overflow)"),
            Some(_) => assert!(false, "OB: product of two constants tracked as a base+offset"),
            None => {}
        }
        assert!(unsafe { NEW_DEFS } == 1, "OB: a definition of the destination must be recorded exactly once");
    }
}
'''


def build(tier):
    fr = vf.extract([{"id": "m", "file": CF, "locator": {"kind": "in_fn", "fn": HOST, "what": "match", "scrutinee": "op", "nth": 0}}])["m"]
    arm = [a for a in fr["arms"] if a["pat"].replace(" ", "") == "VirtualOp::MUL(dest,opd1,opd2)"]
    if len(arm) != 1:
        raise vf.Undecided("const_indexing_aggregates_function: MUL arm not found")
    body = arm[0]["body"]
    src = ENV.replace("@MUL_ARM@", body.replace("&mut latest_version", "latest_version"))
    obs = [vf.Ob("mul_tracks_vm_result", "C07", panic_prop="C17",
                 what="const_indexing_aggregates_function, MUL of two tracked constants: never panics; the destination is tracked as Constant(v) only if v is the product the VM computes (no overflow)")]
    u = vf.KaniUnit("c07_constidx", {"src/lib.rs": src}, obs, timeout_s=300, jobs=2)
    u.fragments = [dict(vf.frag_record(fr), note="arm `VirtualOp::MUL(dest, opd1, opd2)` at line %d" % arm[0]["line"])]
    u.rewrites = [{"rule": "R5", "before": "match arm VirtualOp::MUL", "after": "fn mul_arm", "times": 1},
                  {"rule": "R1", "before": "&mut latest_version (a local in the host)", "after": "latest_version (a &mut parameter)", "times": body.count("&mut latest_version")}]
    u.assumptions = ["RegContents/VRegDef/record_new_def are function-local items copied by hand into the environment; FxHashMap replaced by a 3-slot map"]
    return [u]
