"""C06 U6.1/U6.3: sway_types::U256 and the 256-bit folding arms under Verus contracts (nat-level, unbounded)."""
import re

import vf

UF = "sway-types/src/u256.rs"
CF = "sway-ir/src/optimize/constants.rs"

CEF = "sway-core/src/ir_generation/const_eval.rs"


def _cek(nth):
    return {"kind": "in_fn", "fn": {"kind": "fn", "name": "const_eval_intrinsic"}, "what": "match", "scrutinee": "intrinsic.kind", "nth": nth}


BINOPS = [  # trait, method, pre, value   (BigUint subtraction panics on underflow, div/rem on zero)
    ("Add", "add", "true", "a + b"), ("Sub", "sub", "a >= b", "(a - b) as nat"), ("Mul", "mul", "true", "a * b"),
    ("Div", "div", "b != 0", "a / b"), ("Rem", "rem", "b != 0", "a % b"),
    ("BitAnd", "bitand", "true", "nat_and(a, b)"), ("BitOr", "bitor", "true", "nat_or(a, b)"), ("BitXor", "bitxor", "true", "nat_xor(a, b)"),
]


def biguint_binops():
    out = []
    for tr, m, pre, val in BINOPS:
        out.append("""impl<'a> %(tr)s<&'a BigUint> for &'a BigUint { type Output = BigUint; #[verifier::external_body] fn %(m)s(self, rhs: &'a BigUint) -> BigUint { unimplemented!() } }
impl<'a> %(tr)sSpecImpl<&'a BigUint> for &'a BigUint {
    open spec fn obeys_%(m)s_spec() -> bool { true }
    open spec fn %(m)s_req(self, rhs: &'a BigUint) -> bool { let a = self@; let b = rhs@; %(pre)s }
    open spec fn %(m)s_spec(self, rhs: &'a BigUint) -> BigUint { let a = self@; let b = rhs@; mk(%(val)s) }
}""" % dict(tr=tr, m=m, pre=pre, val=val))
    return "\n".join(out)


OPSYM = {"+": "add", "-": "sub", "*": "mul", "/": "div", "%": "rem", "&": "bitand", "|": "bitor", "^": "bitxor"}


def r4(text, log):
    """R4: `&x op &y` (both operands borrowed paths) -> `(&x).method(&y)`; rustc's own desugaring"""
    pat = re.compile(r"&([A-Za-z_][A-Za-z_0-9.]*) ([-+*/%&|^]) &([A-Za-z_][A-Za-z_0-9.]*)")
    def sub(m):
        return "(&%s).%s(&%s)" % (m.group(1), OPSYM[m.group(2)], m.group(3))
    new, n = pat.subn(sub, text)
    if n:
        log.append({"rule": "R4", "before": "&a op &b", "after": "(&a).method(&b)", "times": n})
    return new


# contracts of the inherent methods (requires/ensures spliced between signature and body)
CONTRACTS = {
    "checked_add": ("res: Option<U256>", "wf(self), wf(other)",
                    "res matches Some(v) ==> v.0@ == self.0@ + other.0@ && wf(&v), res is None ==> self.0@ + other.0@ >= pow2(256)"),
    "checked_sub": ("res: Option<U256>", "wf(self), wf(other)",
                    "res matches Some(v) ==> self.0@ >= other.0@ && v.0@ == self.0@ - other.0@ && wf(&v), res is None ==> self.0@ < other.0@"),
    "checked_mul": ("res: Option<U256>", "wf(self), wf(other)",
                    "res matches Some(v) ==> v.0@ == self.0@ * other.0@ && wf(&v), res is None ==> self.0@ * other.0@ >= pow2(256)"),
    "checked_div": ("res: Option<U256>", "wf(self), wf(other)",
                    "res matches Some(v) ==> other.0@ != 0 && v.0@ == self.0@ / other.0@ && wf(&v), res is None ==> other.0@ == 0"),
    "checked_rem": ("res: Option<U256>", "wf(self), wf(other)",
                    "res matches Some(v) ==> other.0@ != 0 && v.0@ == self.0@ % other.0@ && wf(&v), res is None ==> other.0@ == 0"),
    "shr": ("res: U256", "wf(self)", "res.0@ == self.0@ / pow2(*other as nat), wf(&res)"),
    "checked_shl": ("res: Option<U256>", "wf(self)",
                    "res matches Some(v) ==> v.0@ == self.0@ * pow2(*other as nat) && wf(&v), res is None ==> self.0@ * pow2(*other as nat) >= pow2(256)"),
    "is_zero": ("res: bool", "true", "res == (self.0@ == 0)"),
}
PROOFS = {  # proof lines inserted at the top of the body
    "checked_shl": "if *other >= 256 { if *other > 256 { lemma_pow2_strictly_increases(256, *other as nat); } lemma_pow2_pos(*other as nat); "
                   "if self.0@ != 0 { assert(self.0@ * pow2(*other as nat) >= pow2(*other as nat)) by (nonlinear_arith) requires self.0@ >= 1, pow2(*other as nat) > 0; } "
                   "else { assert(self.0@ * pow2(*other as nat) == 0) by (nonlinear_arith) requires self.0@ == 0; } }",
    "checked_div": "if other.0@ != 0 { assert(self.0@ / other.0@ <= self.0@) by (nonlinear_arith) requires other.0@ > 0; }",
    "checked_rem": "if other.0@ != 0 { assert(self.0@ % other.0@ < other.0@) by (nonlinear_arith) requires other.0@ > 0; }",
    "shr": "lemma_pow2_pos(*other as nat); assert(self.0@ / pow2(*other as nat) <= self.0@) by (nonlinear_arith) requires pow2(*other as nat) > 0;",
}
CLOSURES = {  # R2 closure contracts: fn -> (ret binder, requires, ensures)
    "checked_sub": ("r: U256", "self.0@ >= other.0@", "r.0@ == self.0@ - other.0@"),
    "checked_div": ("r: U256", "other.0@ != 0", "r.0@ == self.0@ / other.0@"),
}
DROP = {"from_be_bytes": "uses BigUint::from_bytes_be on a slice (no arithmetic); establishes nothing the arms rely on",
        "to_be_bytes": "Vec::append / try_into: outside Verus's subset (contract: 32 bytes, requires wf) -- assumed"}


def contract_impl(frag, log):
    text = frag["text"]
    fns = sorted(frag["fns"], key=lambda f: f["start"])
    out, last = [], 0
    for f in fns:
        out.append(text[last:f["start"]])
        last = f["end"]
        name = f["name"]
        ft = text[f["start"]:f["end"]]
        if name in DROP:
            log.append({"rule": "drop", "before": "fn %s" % name, "after": "(not verified: %s)" % DROP[name], "times": 1})
            continue
        if name not in CONTRACTS:
            raise vf.Undecided("U256 has a method without a contract: %s" % name)
        ret, req, ens = CONTRACTS[name]
        bo = f["body_open"] - f["start"]
        sig, body = ft[:bo], ft[bo:]
        # closures first (offsets relative to the impl fragment)
        cls = sorted(f["closures"], key=lambda c: -c["start"])
        for c in cls:
            if name not in CLOSURES:
                raise vf.Undecided("closure in %s without a contract" % name)
            cret, creq, cens = CLOSURES[name]
            cs, ce = c["start"] - f["start"] - bo, c["end"] - f["start"] - bo
            cb = body[c["body_start"] - f["start"] - bo:c["body_end"] - f["start"] - bo]
            head = body[cs:c["or2_end"] - f["start"] - bo]
            body = body[:cs] + "%s -> (%s) requires %s ensures %s { %s }" % (head, cret, creq, cens, cb) + body[ce:]
            log.append({"rule": "R2", "before": "closure in %s" % name, "after": "requires %s ensures %s" % (creq, cens), "times": 1})
        body = r4(body, log)
        sig2, n = re.subn(r"->\s*([A-Za-z_<>0-9]+)\s*$", "-> (%s)\n        requires %s\n        ensures %s\n    " % (ret, req, ens), sig)
        if n != 1:
            raise vf.Undecided("cannot splice the contract of %s" % name)
        pr = "{\n        broadcast use ax_mk;\n        proof { %s }" % PROOFS[name] if name in PROOFS else "{\n        broadcast use ax_mk;"
        body = pr + body[1:]
        log.append({"rule": "R2", "before": "fn %s" % name, "after": "requires %s ensures %s" % (req, ens), "times": 1})
        out.append(sig2 + body)
    out.append(text[last:])
    return "".join(out)


SPECIMPL = {  # trait -> (method, spec value over self.0@ / rhs.0@, requires)
    "BitAnd": ("bitand", "nat_and(self.0@, rhs.0@)", "true"), "BitOr": ("bitor", "nat_or(self.0@, rhs.0@)", "true"),
    "BitXor": ("bitxor", "nat_xor(self.0@, rhs.0@)", "true"), "Rem": ("rem", "self.0@ % rhs.0@", "rhs.0@ != 0"),
}


def ops_impls(frs, log):
    out = []
    for tr, fr in frs.items():
        m, val, req = SPECIMPL[tr]
        t = fr["text"].replace("std::ops::%s" % tr, tr)
        out.append(t)
        out.append("""impl<'a> %(tr)sSpecImpl<&'a U256> for &'a U256 {
    open spec fn obeys_%(m)s_spec() -> bool { true }
    open spec fn %(m)s_req(self, rhs: &'a U256) -> bool { %(req)s }
    open spec fn %(m)s_spec(self, rhs: &'a U256) -> U256 { U256(mk(%(val)s)) }
}""" % dict(tr=tr, m=m, val=val, req=req))
        log.append({"rule": "R2", "before": "impl %s for &U256" % tr, "after": "%sSpecImpl twin: requires %s, result view == %s" % (tr, req, val), "times": 1})
    return "\n".join(out)


# ---- arms ---------------------------------------------------------------------------------------------
ARM_POST = {
    "Add": "wq_add(l.0@, r.0@) == Some(out_v.0@)", "Sub": "wq_sub(l.0@, r.0@) == Some(out_v.0@)", "Mul": "wq_mul(l.0@, r.0@) == Some(out_v.0@)",
    "Div": "wq_div(l.0@, r.0@) == Some(out_v.0@)", "Mod": "wq_mod(l.0@, r.0@) == Some(out_v.0@)",
    "And": "out_v.0@ == nat_and(l.0@, r.0@)", "Or": "out_v.0@ == nat_or(l.0@, r.0@)", "Xor": "out_v.0@ == nat_xor(l.0@, r.0@)",
    "Rsh": "wq_shr(l.0@, *r as nat) == Some(out_v.0@)", "Lsh": "wq_shl(l.0@, *r as nat) == Some(out_v.0@)",
    "Not": "wq_not(l.0@) == Some(out_v.0@)",
}
ARM_PROOF = {
    "Rsh": "if *r >= 256 { lemma_shr_big(l.0@, *r as nat); }",
    "Lsh": "if l.0@ * pow2(*r as nat) < pow2(256) { lemma_shl_fits(l.0@, *r as nat); }",
}
MAPCL = ".map(|x: U256| -> (y: ConstantValue) ensures y == ConstantValue::U256(x) { ConstantValue::U256(x) })"


def lift_arm(tag, op, lname, rkind, rname, body, log):
    """R5 + R3: arm `P => e` becomes fn arm(<bindings>) { e }"""
    b = body
    if ".map(U256)" in b:
        b = b.replace(".map(U256)", MAPCL)
        log.append({"rule": "R3", "before": ".map(U256)", "after": "eta-expanded closure with ensures", "times": 1})
    b = re.sub(r"\bSome\(U256\(", "Some(ConstantValue::U256(", b)
    b2 = re.sub(r"\b(%s) ([&|^]) (%s)\b" % (lname, rname or "_none_"), lambda m: "(%s).%s(%s)" % (m.group(1), OPSYM[m.group(2)], m.group(3)), b)
    if b2 != b:
        log.append({"rule": "R4", "before": "l op r on &U256", "after": "(l).method(r)", "times": 1})
    b = re.sub(r"!(%s)\b" % lname, r"(\1).not()", b2)
    params = "%s: &U256" % lname + (", %s: &%s" % (rname, "U256" if rkind == "U256" else "u64") if rname else "")
    req = "wf(%s)" % lname + (", wf(%s)" % rname if rkind == "U256" else "")
    post = ARM_POST[op].replace("l.0@", lname + ".0@")
    if rname:
        post = post.replace("r.0@", rname + ".0@").replace("*r as", "*%s as" % rname)
    proof = ARM_PROOF.get(op, "")
    if proof:
        proof = proof.replace("l.0@", lname + ".0@").replace("*r ", "*%s " % rname)
    name = "arm_%s_%s" % (tag, op.lower())
    fn = """/// %s arm %s
pub fn %s(%s) -> (res: Option<ConstantValue>)
    requires %s
    ensures res matches Some(c) ==> (c matches ConstantValue::U256(out_v) && %s)
{
    broadcast use ax_mk, ax_bitwise_range;
    proof { %s }
    %s
}""" % (tag, op, name, params, req, post, proof, b)
    log.append({"rule": "R5", "before": "match arm (%s, U256..)" % op, "after": "fn %s" % name, "times": 1})
    return name, fn


def build(tier):
    specs = [
        {"id": "struct", "file": UF, "locator": {"kind": "item", "item": "struct", "name": "U256", "attrs": "strip"}},
        {"id": "impl", "file": UF, "locator": {"kind": "impl", "self_ty": "U256", "trait": "-"}},
        {"id": "bin", "file": CF, "locator": {"kind": "in_fn", "fn": {"kind": "fn", "name": "combine_binary_op"}, "what": "match", "scrutinee": "(op, &val1.value, &val2.value)"}},
        {"id": "un", "file": CF, "locator": {"kind": "in_fn", "fn": {"kind": "fn", "name": "combine_unary_op"}, "what": "match", "scrutinee": "(op, &val.get_content(context).value)"}},
        {"id": "ce_arith", "file": CEF, "locator": dict(_cek(1), arm0="Intrinsic::Add")},
        {"id": "ce_bitw", "file": CEF, "locator": dict(_cek(1), arm0="Intrinsic::And")},
        {"id": "ce_bitw_b", "file": CEF, "locator": dict(_cek(2), arm0="Intrinsic::And")},
        {"id": "ce_shift", "file": CEF, "locator": dict(_cek(1), arm0="Intrinsic::Lsh")},
        {"id": "ce_shift_b", "file": CEF, "locator": dict(_cek(2), arm0="Intrinsic::Lsh")},
        {"id": "cmp_gt", "file": CF, "locator": {"kind": "in_fn", "fn": {"kind": "fn", "name": "combine_cmp"}, "what": "match",
                                                  "scrutinee": "(&val1.get_content(context).value, &val2.get_content(context).value,)", "nth": 0}},
        {"id": "cmp_lt", "file": CF, "locator": {"kind": "in_fn", "fn": {"kind": "fn", "name": "combine_cmp"}, "what": "match",
                                                  "scrutinee": "(&val1.get_content(context).value, &val2.get_content(context).value,)", "nth": 1}},
    ] + [{"id": "op_" + tr, "file": UF, "locator": {"kind": "impl", "self_ty": "&'a U256", "trait": "std::ops::%s<&'a U256>" % tr}} for tr in SPECIMPL]
    fr = vf.extract(specs)
    log = []
    src = open(vf.ROOT + "/units/u256_env.rs").read()
    st = re.sub(r"^pub struct U256\(BigUint\);", "pub struct U256(pub BigUint);", fr["struct"]["text"])
    impl = contract_impl(fr["impl"], log)
    ops = ops_impls({tr: fr["op_" + tr] for tr in SPECIMPL}, log)
    arms, obs = [], []
    for arm in fr["bin"]["arms"]:
        m = re.match(r"\(\s*(\w+)\s*,\s*U256\((\w+)\)\s*,\s*(U256|Uint)\((\w+)\)\s*\)$", arm["pat"].strip())
        if not m:
            continue
        op, ln, rk, rn = m.groups()
        if op not in ARM_POST:
            raise vf.Undecided("combine_binary_op has a U256 arm for an operator without a contract: %s" % op)
        name, fn = lift_arm("fold", op, ln, rk, rn, arm["body"], log)
        arms.append(fn)
        obs.append(vf.Ob(name, "C06", panic_prop="C17", what="combine_binary_op (%s, U256, %s): Some(v) ==> the VM wide-int op yields v without panic (checked against U256's contracts, not bodies)" % (op, rk)))
    for arm in fr["un"]["arms"]:
        m = re.match(r"\(\s*(\w+)\s*,\s*U256\((\w+)\)\s*\)$", arm["pat"].strip())
        if not m:
            continue
        op, ln = m.groups()
        name, fn = lift_arm("fold", op, ln, None, None, arm["body"], log)
        arms.append(fn)
        obs.append(vf.Ob(name, "C06", panic_prop="C17", what="combine_unary_op (%s, U256): folded value == VM wide NOT (against the assumed contract of `Not for &U256`)" % op))
    # const_eval_intrinsic: the (U256, U256) / (B256, B256) / (U256|B256, Uint) inner matches on intrinsic.kind
    CEK = {"Add": "Add", "Sub": "Sub", "Mul": "Mul", "Div": "Div", "Mod": "Mod", "And": "And", "Or": "Or", "Xor": "Xor", "Lsh": "Lsh", "Rsh": "Rsh"}
    for fid, tag, rk in (("ce_arith", "ceval_u256", "U256"), ("ce_bitw", "ceval_u256", "U256"), ("ce_bitw_b", "ceval_b256", "U256"),
                         ("ce_shift", "ceval_u256", "Uint"), ("ce_shift_b", "ceval_b256", "Uint")):
        for arm in fr[fid]["arms"]:
            m = re.match(r"Intrinsic::(\w+)$", arm["pat"].strip())
            if not m:
                continue
            op = CEK.get(m.group(1))
            if op is None:
                raise vf.Undecided("const_eval_intrinsic wide arm for an operator without a contract: %s" % m.group(1))
            body = arm["body"]
            params = "arg1: &U256, arg2: &%s" % ("U256" if rk == "U256" else "u64")
            req = "wf(arg1)" + (", wf(arg2)" if rk == "U256" else "")
            post = ARM_POST[op].replace("l.0@", "arg1.0@").replace("r.0@", "arg2.0@").replace("*r as", "*arg2 as")
            proof = ARM_PROOF.get(op, "").replace("l.0@", "arg1.0@").replace("*r ", "*arg2 ")
            name = "arm_%s_%s" % (tag, op.lower())
            arms.append("""/// const_eval_intrinsic %s arm Intrinsic::%s
pub fn %s(%s) -> (res: Option<U256>)
    requires %s
    ensures res matches Some(out_v) ==> %s
{
    broadcast use ax_mk, ax_bitwise_range;
    proof { %s }
    %s
}""" % (tag, op, name, params, req, post, proof, body))
            log.append({"rule": "R5", "before": "const_eval_intrinsic arm Intrinsic::%s (%s)" % (op, tag), "after": "fn %s" % name, "times": 1})
            obs.append(vf.Ob(name, "C06", panic_prop="C17", what="const_eval_intrinsic %s Intrinsic::%s: Some(v) ==> the VM wide-int op yields v; callee preconditions (no BigUint panic) hold" % (tag, op)))
    # combine_cmp: ordering predicates on 256-bit constants (WQCM gt / lt compare the 256-bit values)
    for fid, opname, rel in (("cmp_gt", "GreaterThan", ">"), ("cmp_lt", "LessThan", "<")):
        found = 0
        for arm in fr[fid]["arms"]:
            m = re.match(r"\(\s*(U256|B256)\((\w+)\)\s*,\s*(U256|B256)\((\w+)\)\s*\)$", arm["pat"].strip())
            if not m:
                continue
            found += 1
            kind, a, _, b = m.groups()
            name = "arm_cmp_%s_%s" % (opname.lower(), kind.lower())
            arms.append("""/// combine_cmp %s arm on %s
pub fn %s(%s: &U256, %s: &U256) -> (res: bool)
    ensures res == (%s.0@ %s %s.0@)
{
    %s
}""" % (opname, kind, name, a, b, a, rel, b, arm["body"]))
            log.append({"rule": "R5", "before": "combine_cmp %s arm (%s)" % (opname, kind), "after": "fn %s" % name, "times": 1})
            obs.append(vf.Ob(name, "C06", panic_prop="C17", what="combine_cmp %s on %s constants == comparison of the 256-bit values (VM WQCM)" % (opname, kind)))
        if found != 2:
            raise vf.Undecided("combine_cmp %s: expected U256 and B256 arms" % opname)
    if len(arms) < 10:
        raise vf.Undecided("expected at least 10 U256 folding arms, found %d" % len(arms))
    for n in CONTRACTS:
        obs.append(vf.Ob(n, "C06", panic_prop="C17", what="sway_types::U256::%s meets its contract (nat-level, all 256-bit values)" % n))
    for tr, (m, val, req) in SPECIMPL.items():
        obs.append(vf.Ob(m, "C06", panic_prop="C17", what="impl %s for &U256: result view == %s (requires %s)" % (tr, val, req)))
    obs.append(vf.Ob("vacuity_twin", "C06", expect_fail=True, what="assert(false) behind all preconditions and axioms must fail"))
    obs.append(vf.Ob("lemma_shr_big", "C06", what="lemma: l < 2^256, n >= 256 ==> l / 2^n == 0 (proved, not admitted)"))
    obs.append(vf.Ob("lemma_shl_fits", "C06", what="lemma: l * 2^n < 2^256 ==> VM shl (truncating) yields l * 2^n (proved, not admitted)"))
    src = (src.replace("@BIGUINT_BINOPS@", biguint_binops()).replace("@U256_STRUCT@", st).replace("@U256_IMPL@", impl)
           .replace("@U256_OPS@", ops).replace("@ARMS@", "\n\n".join(arms)))
    u = vf.VerusUnit("u256_wide", src, obs, extra_args=["--triggers-mode", "silent"], timeout_s=300)
    u.fragments = [vf.frag_record(fr[k]) for k in fr]
    u.rewrites = log
    u.assumptions = [
        "num_bigint::BigUint axiomatised as a type isomorphic to nat: add, sub (requires a>=b), mul, div/rem (requires b!=0), shl/shr by &u64 as * and / by 2^n, bits()<=256 <=> value<2^256, is_zero, PartialEq, PartialOrd, ZERO",
        "bitand/bitor/bitxor on naturals are uninterpreted functions that stay below 2^256 on 256-bit inputs; the VM's WQOP and/or/xor are taken to be the same functions",
        "contract of `impl Not for &U256` assumed (body outside Verus's subset); U256::to_be_bytes/from_be_bytes not verified",
        "resource model: BigUint << n with n > 2^16 on a non-zero value is a precondition violation (allocation of n/8 bytes); all other BigUint operations are treated as resource-free",
        "wide-int VM oracle (wq_*) transcribed from fuel-vm 0.66.4 interpreter/alu/wideint.rs",
        "operands reaching the arms satisfy wf (value < 2^256): established by literal parsing and by every checked operation's own postcondition",
    ]
    return [u]


# ------------------------------------------------------------------------------------------------------
# where U256 values are born: the literal conversion must establish wf (value < 2^256), the precondition of every U256 contract
# ------------------------------------------------------------------------------------------------------
LIT_ENV = r'''use vstd::prelude::*;
use vstd::arithmetic::power2::pow2;
verus! {
#[verifier::external_body]
pub struct BigUint { _p: () }
impl View for BigUint { type V = nat; uninterp spec fn view(&self) -> nat; }
impl BigUint {
    /// ASSUMED: number of significant bits
    #[verifier::external_body]
    pub fn bits(&self) -> (r: u64) ensures (r <= 256) == (self@ < pow2(256)) { unimplemented!() }
}
pub struct U256(pub BigUint);
pub open spec fn wf(x: &U256) -> bool { x.0@ < pow2(256) }
// ---- extracted verbatim from sway-types/src/u256.rs ----
@FROM_IMPL@
impl vstd::std_specs::convert::FromSpecImpl<BigUint> for U256 {
    open spec fn obeys_from_spec() -> bool { true }
    open spec fn from_spec(v: BigUint) -> U256 { U256(v) }
}
// ---- environment of literal_to_literal (message carriers) ----
pub enum Literal { U256(U256), Other }
pub struct Span; pub struct Handler; pub struct ErrorEmitted; pub struct CompileError;
pub enum ConvertParseTreeError { IntLiteralOutOfRange { span: Span } }
impl From<ConvertParseTreeError> for CompileError { #[verifier::external_body] fn from(e: ConvertParseTreeError) -> CompileError { unimplemented!() } }
impl vstd::std_specs::convert::FromSpecImpl<ConvertParseTreeError> for CompileError {
    open spec fn obeys_from_spec() -> bool { false }
    uninterp spec fn from_spec(v: ConvertParseTreeError) -> CompileError;
}
impl Handler { #[verifier::external_body] pub fn emit_err(&self, e: CompileError) -> ErrorEmitted { unimplemented!() } }
/// literal_to_literal, arm `LitIntType::U256` (verbatim): every u256 literal that is accepted is below 2^256
pub fn literal_u256_arm(parsed: BigUint, handler: &Handler, span: Span) -> (res: Result<Literal, ErrorEmitted>)
    ensures res matches Ok(Literal::U256(v)) ==> wf(&v)
{
    let lit = @ARM@;
    Ok(lit)
}
} // verus!
fn main() {}
'''


def build_literal(tier):
    CP = "sway-core/src/transform/to_parsed_lang/convert_parse_tree.rs"
    fr = vf.extract([
        {"id": "from", "file": UF, "locator": {"kind": "impl", "self_ty": "U256", "trait": "From<BigUint>"}},
        {"id": "m", "file": CP, "locator": {"kind": "in_fn", "fn": {"kind": "fn", "name": "literal_to_literal"}, "what": "match", "scrutinee": "lit_int_type", "nth": 0}},
    ])
    arm = [a for a in fr["m"]["arms"] if a["pat"].replace(" ", "") == "LitIntType::U256"]
    if len(arm) != 1:
        raise vf.Undecided("literal_to_literal: arm LitIntType::U256 not found")
    src = LIT_ENV.replace("@FROM_IMPL@", fr["from"]["text"]).replace("@ARM@", arm[0]["body"])
    obs = [vf.Ob("literal_u256_arm", "C17", what="literal_to_literal: an accepted u256 literal is below 2^256 (the precondition wf of every U256 operation, incl. to_be_bytes' `32 - len`)")]
    u = vf.VerusUnit("u256_literal", src, obs, extra_args=["--triggers-mode", "silent"])
    u.fragments = [vf.frag_record(fr["from"]), dict(vf.frag_record(fr["m"]), note="arm LitIntType::U256 at line %d" % arm[0]["line"])]
    u.rewrites = [{"rule": "R5", "before": "match arm LitIntType::U256", "after": "fn literal_u256_arm", "times": 1}]
    u.assumptions = ["BigUint::bits() <= 256 <=> value < 2^256; Handler/Span/CompileError are carriers",
                     "U256::to_be_bytes requires wf(self) (its `vec![0u8; 32 - v.len()]` underflows otherwise) -- that body is outside Verus's subset; the obligation here establishes wf at the only place literals enter"]
    return [u]
