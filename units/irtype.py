"""C17 unit: sway_ir::Type::size -- the array arm multiplies length by element size (irtype.rs)."""
import vf

IF = "sway-ir/src/irtype.rs"

ENV = r'''
#![allow(unused, dead_code, clippy::all)]
pub struct Ctx;
/// shim of the element `Type` handle: its size is an arbitrary value fixed by the harness
pub struct ElTy(pub u64);
impl ElTy { pub fn size(&self, _c: &Ctx) -> TypeSize { TypeSize::new(self.0) } }
// ---------------- extracted verbatim from sway-ir/src/irtype.rs ----------------
#[derive(Clone, Debug)]
@TypeSize@
@TypeSize_impl@
/// Type::size, arm `TypeContent::Array(el_ty, cnt)` -- verbatim
pub fn array_size(el_ty: &ElTy, cnt: &u64, context: &Ctx) -> TypeSize { @ARM@ }
#[cfg(kani)]
mod h {
    use super::*;
    #[kani::proof] #[kani::solver(z3)]
    fn array_size_value() {
        let (cnt, el): (u64, u64) = (kani::any(), kani::any());
        let want = cnt.checked_mul(el);
        kani::assume(want.is_some());
        let s = array_size(&ElTy(el), &cnt, &Ctx);
        assert!(Some(s.in_bytes()) == want, "OB: size of an array is length x element size");
    }
    #[kani::proof] #[kani::solver(z3)]
    fn array_size_total() {
        let (cnt, el): (u64, u64) = (kani::any(), kani::any());
        kani::assume(el <= 1 << 32);    // element sizes of realistic types
        let _ = array_size(&ElTy(el), &cnt, &Ctx);
    }
    #[kani::proof]
    fn aligned_size() {
        let n: u64 = kani::any();
        kani::assume(n <= u64::MAX - 7);
        let a = TypeSize::new(n).in_bytes_aligned();
        assert!(a % 8 == 0 && a >= n && a - n < 8, "OB: in_bytes_aligned is the least multiple of 8 not below the size");
        assert!(TypeSize::new(n).in_words() * 8 == a, "OB: in_words agrees with in_bytes_aligned");
    }
}
'''


def build(tier):
    fr = vf.extract([
        {"id": "TypeSize", "file": IF, "locator": {"kind": "item", "item": "struct", "name": "TypeSize", "attrs": "strip"}},
        {"id": "TypeSize_impl", "file": IF, "locator": {"kind": "impl", "self_ty": "TypeSize", "trait": "-"}},
        {"id": "m", "file": IF, "locator": {"kind": "in_fn", "fn": {"kind": "impl_fn", "self_ty": "Type", "name": "size", "trait": "-"}, "what": "match", "scrutinee": "self.get_content(context)", "nth": 0}},
    ])
    arm = [a for a in fr["m"]["arms"] if a["pat"].replace(" ", "") == "TypeContent::Array(el_ty,cnt)"]
    if len(arm) != 1:
        raise vf.Undecided("Type::size: array arm not found")
    src = ENV.replace("@TypeSize@", fr["TypeSize"]["text"]).replace("@TypeSize_impl@", fr["TypeSize_impl"]["text"]).replace("@ARM@", arm[0]["body"])
    obs = [vf.Ob("array_size_value", "C17", what="Type::size of an array == length x element size whenever that fits in 64 bits"),
           vf.Ob("array_size_total", "C17", known="D14", what="Type::size of an array never overflows (no panic / no wrapped size), element size up to 2^32"),
           vf.Ob("aligned_size", "C17", what="TypeSize::in_bytes_aligned / in_words: least multiple of 8 not below the size")]
    u = vf.KaniUnit("irtype_size", {"src/lib.rs": src}, obs, timeout_s=300, jobs=3, auto_files=[IF])
    u.fragments = [vf.frag_record(fr["TypeSize"]), vf.frag_record(fr["TypeSize_impl"]), dict(vf.frag_record(fr["m"]), note="arm TypeContent::Array at line %d" % arm[0]["line"])]
    u.rewrites = [{"rule": "R5", "before": "match arm TypeContent::Array(el_ty, cnt)", "after": "fn array_size", "times": 1}]
    u.assumptions = ["the element type handle is shimmed: its size is an arbitrary u64 chosen by the harness"]
    return [u]
