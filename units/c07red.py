"""C07 unit: the removal decision of `remove_redundant_ops` (sway-core/.../optimizations/misc.rs).

The `let remove = match &op.opcode { .. };` statement is extracted verbatim and wrapped in a function.  Its contract:
an op is classified removable only if executing it on the FuelVM changes nothing but $pc and the flags $of/$err
(which it sets to zero) -- i.e. every general register and all of memory are unchanged.
"""
import re

import vf
from units.c07 import item, ifn, filter_enum, VO, VI, VR, CC, ML

MISC = "sway-core/src/asm_generation/fuel/optimizations/misc.rs"
HOST = {"kind": "impl_fn", "self_ty": "AbstractInstructionSet", "name": "remove_redundant_ops"}
KEEP = set("NOOP MOVE MCP MCPI ADD ADDI MOVI LW NOT".split())
MODELLED = set("NOOP MOVE MCP MCPI MOVI NOT".split())   # variants fn step has VM semantics for; ADD/ADDI/LW only exercise the `_ => false` path

ENV = r'''
#![allow(unused, dead_code, non_snake_case, non_camel_case_types, unreachable_patterns, clippy::all)]
use either::Either;
// ---------------- environment (hand-written shims, listed as assumptions) ----------------
#[derive(Clone, Debug, PartialEq)] pub struct Span;
/// shim of VirtualRegister: the virtual register *name* is a small integer instead of a String
#[derive(Hash, PartialEq, Eq, PartialOrd, Ord, Debug, Clone)]
pub enum VirtualRegister { Virtual(u8), Constant(ConstantRegister) }
/// shim of asm_lang::Label (a usize newtype)
#[derive(Clone, Copy, Debug, PartialEq, Eq)] pub struct Label(pub usize);
pub type OrganizationalOp = ControlFlowOp<VirtualRegister>;
/// shim of asm_lang::Op: `comment: String` is a unit type (written, never read by the code under contract)
pub struct Op { pub opcode: Either<VirtualOp, OrganizationalOp>, pub comment: Comment, pub owning_span: Option<Span> }
pub struct Comment; impl From<&str> for Comment { fn from(_: &str) -> Comment { Comment } }
pub mod compiler_constants {
    @CONST_TWENTY_FOUR_BITS@
    @CONST_EIGHTEEN_BITS@
    @CONST_TWELVE_BITS@
    @CONST_SIX_BITS@
}
// ---------------- extracted verbatim ----------------
#[derive(Hash, PartialEq, Eq, PartialOrd, Ord, Debug, Clone)]
@ConstantRegister@
#[derive(Clone, Debug)]
@VirtualImmediate06@
#[derive(Clone, Debug)]
@VirtualImmediate12@
impl VirtualImmediate12 {
    @imm12_value@
}
#[derive(Clone, Debug)]
@VirtualImmediate18@
#[derive(Clone, Debug)]
@VirtualImmediate24@
#[derive(Clone, Debug)]
@VirtualOp@
#[derive(Clone, Debug)]
@JumpType@
#[derive(Clone, Debug)]
@ControlFlowOp@
/// R5 lifting: the filter_map closure of remove_sequential_jumps, verbatim, as a function of (index, window)
fn dead_jump((@SJ_P0@, @SJ_P1@): (usize, &[Op])) -> Option<usize> { @SJ_BODY@ }
/// R5 lifting: the first `let remove = ..;` of remove_redundant_ops, verbatim, as a function of the op
fn classify(op: &Op) -> bool {
    @LET_REMOVE@
    remove
}

#[cfg(kani)]
mod h {
    use super::*;
    /// FuelVM state visible to the four instructions the pass removes: 3 general registers + a window of memory.
    /// (fuel-specs, instruction set: NOOP / MOVE clear $of and $err; MCP / MCPI copy $rC resp. imm bytes and leave the flags.)
    #[derive(Clone, Copy)]
    struct St { r: [u64; 3], mem: [u8; 4] }
    fn rd(s: &St, x: &VirtualRegister) -> u64 {
        match x { VirtualRegister::Virtual(i) => s.r[*i as usize % 3],
                  VirtualRegister::Constant(ConstantRegister::Zero) => 0, VirtualRegister::Constant(ConstantRegister::One) => 1,
                  VirtualRegister::Constant(_) => 7 /* some other reserved register: an arbitrary fixed value */ }
    }
    fn wr(s: &mut St, x: &VirtualRegister, v: u64) { if let VirtualRegister::Virtual(i) = x { s.r[*i as usize % 3] = v; } }
    /// memory effect of copying `len` bytes inside the window (addresses taken modulo the window; a panic is not a state change)
    fn copy(s: &mut St, dst: u64, src: u64, len: u64) {
        let mut k = 0u64; while k < len && k < 4 { let b = s.mem[((src + k) % 4) as usize]; s.mem[((dst + k) % 4) as usize] = b; k += 1; }
    }
    /// one VM step on registers and memory ($pc, $of, $err are outside St)
    fn step(op: &VirtualOp, s: &St) -> Option<St> {
        let mut t = *s;
        match op {
            VirtualOp::NOOP => {}
            VirtualOp::MOVE(a, b) => { let v = rd(s, b); wr(&mut t, a, v); }
            VirtualOp::MCP(a, b, c) => { let (d, sr, l) = (rd(s, a) % 4, rd(s, b) % 4, rd(s, c)); copy(&mut t, d, sr, l); }
            VirtualOp::MCPI(a, b, i) => { let (d, sr) = (rd(s, a) % 4, rd(s, b) % 4); copy(&mut t, d, sr, i.value() as u64); }
            VirtualOp::MOVI(a, i) => { wr(&mut t, a, i.value as u64); }
            VirtualOp::NOT(a, b) => { let v = !rd(s, b); wr(&mut t, a, v); }
            _ => return None,   // not modelled: the obligation then demands `classify == false`
        }
        Some(t)
    }
    fn any_reg() -> VirtualRegister {
        match kani::any::<u8>() % 6 { 0 => VirtualRegister::Constant(ConstantRegister::Zero), 1 => VirtualRegister::Constant(ConstantRegister::One),
            2 => VirtualRegister::Constant(ConstantRegister::StackPointer), k => VirtualRegister::Virtual(k - 3) }
    }
    fn any_op() -> VirtualOp {
        let i12 = VirtualImmediate12 { value: kani::any::<u16>() % 4096 };
        let i18 = VirtualImmediate18 { value: kani::any::<u32>() % (1 << 18) };
        match kani::any::<u8>() % 9 {
            0 => VirtualOp::NOOP, 1 => VirtualOp::MOVE(any_reg(), any_reg()), 2 => VirtualOp::MCP(any_reg(), any_reg(), any_reg()),
            3 => VirtualOp::MCPI(any_reg(), any_reg(), i12), 4 => VirtualOp::MOVI(any_reg(), i18), 5 => VirtualOp::NOT(any_reg(), any_reg()),
            6 => VirtualOp::ADD(any_reg(), any_reg(), any_reg()), 7 => VirtualOp::ADDI(any_reg(), any_reg(), i12),
            _ => VirtualOp::LW(any_reg(), any_reg(), i12),
        }
    }
    /// every op the pass classifies as removable leaves all general registers and all memory unchanged, in every state
    #[kani::proof] #[kani::unwind(6)]
    fn removable_is_noop() {
        let vop = any_op();
        let s = St { r: kani::any(), mem: kani::any() };
        let after = step(&vop, &s);
        let op = Op { opcode: Either::Left(vop), comment: Comment, owning_span: None };
        let remove = classify(&op);
        kani::cover!(remove, "some op is classified removable");
        if remove {
            assert!(after.is_some(), "OB: an instruction outside {NOOP, MOVE, MCP, MCPI, ..} is classified removable (no VM model says it is a no-op)");
            let t = after.unwrap();
            assert!(t.r[0] == s.r[0] && t.r[1] == s.r[1] && t.r[2] == s.r[2], "OB: an instruction classified removable changes a general register on the VM");
            assert!(t.mem[0] == s.mem[0] && t.mem[1] == s.mem[1] && t.mem[2] == s.mem[2] && t.mem[3] == s.mem[3], "OB: an instruction classified removable changes memory on the VM");
        }
        std::mem::forget(op);
    }
    /// the four shapes the pass exists for ARE removed (otherwise `_ => false` everywhere would satisfy the obligation above)
    #[kani::proof]
    fn removes_the_intended_shapes() {
        let r = any_reg(); let q = any_reg();
        let mk = |v: VirtualOp| Op { opcode: Either::Left(v), comment: Comment, owning_span: None };
        let o1 = mk(VirtualOp::NOOP); let o2 = mk(VirtualOp::MOVE(r.clone(), r.clone()));
        let o3 = mk(VirtualOp::MCP(r.clone(), q.clone(), VirtualRegister::Constant(ConstantRegister::Zero)));
        let o4 = mk(VirtualOp::MCPI(r.clone(), q.clone(), VirtualImmediate12 { value: 0 }));
        assert!(classify(&o1) && classify(&o2) && classify(&o3) && classify(&o4), "OB: NOOP, MOVE r r, MCP _ _ $zero and MCPI _ _ 0 are removed");
        std::mem::forget((o1, o2, o3, o4, r, q));
    }
    fn any_org() -> OrganizationalOp {
        let l = Label(kani::any::<u8>() as usize % 3);
        match kani::any::<u8>() % 6 {
            0 => OrganizationalOp::Label(l), 1 => OrganizationalOp::Comment,
            2 => OrganizationalOp::Jump { to: l, type_: JumpType::Unconditional }, 3 => OrganizationalOp::Jump { to: l, type_: JumpType::NotZero(any_reg()) },
            4 => OrganizationalOp::Jump { to: l, type_: JumpType::Call }, _ => OrganizationalOp::DataSectionOffsetPlaceholder,
        }
    }
    /// where control goes after the op at `idx` of the two-op window [idx, idx+1]: Some(position) or None = somewhere the window cannot tell
    fn successor(w: &[Op], idx: usize, taken: bool) -> Option<usize> {
        match &w[0].opcode {
            Either::Right(OrganizationalOp::Jump { to, type_ }) => {
                let conditional = matches!(type_, JumpType::NotZero(_));
                if conditional && !taken { return Some(idx + 1); }
                if matches!(type_, JumpType::Call) { return None; }      // a call also hands over a return address: not modelled
                match &w[1].opcode { Either::Right(OrganizationalOp::Label(l)) if l == to => Some(idx + 1), _ => None }
            }
            _ => Some(idx + 1),
        }
    }
    /// remove_sequential_jumps marks exactly the jumps whose every outcome continues at the next line
    #[kani::proof]
    fn sequential_jump_is_dead() {
        let idx: usize = kani::any::<u8>() as usize;
        let a = if kani::any() { Either::Right(any_org()) } else { Either::Left(VirtualOp::NOOP) };
        let b = if kani::any() { Either::Right(any_org()) } else { Either::Left(VirtualOp::NOOP) };
        let is_jump = matches!(&a, Either::Right(OrganizationalOp::Jump { .. }));
        let w = [Op { opcode: a, comment: Comment, owning_span: None }, Op { opcode: b, comment: Comment, owning_span: None }];
        let r = dead_jump((idx, &w[..]));
        let falls_through = successor(&w, idx, true) == Some(idx + 1) && successor(&w, idx, false) == Some(idx + 1);
        kani::cover!(r.is_some(), "some jump is found dead");
        match r {
            Some(i) => {
                assert!(i == idx, "OB: the index reported for a dead jump is not the index of the jump");
                assert!(is_jump && falls_through, "OB: an op is replaced by NOOP although it is not a jump to the next line (control flow changes)");
            }
            None => {}
        }
        std::mem::forget(w);
    }
    /// non-alarming: the jumps the pass exists for ARE found (a pass that finds fewer preserves behaviour just as well)
    #[kani::proof]
    fn sequential_jump_recognised() {
        let l = Label(kani::any::<u8>() as usize % 3);
        let t = if kani::any() { JumpType::Unconditional } else { JumpType::NotZero(any_reg()) };
        let w = [Op { opcode: Either::Right(OrganizationalOp::Jump { to: l, type_: t }), comment: Comment, owning_span: None },
                 Op { opcode: Either::Right(OrganizationalOp::Label(l)), comment: Comment, owning_span: None }];
        assert!(dead_jump((4, &w[..])) == Some(4), "OB: a jump to the next line is not recognised");
        std::mem::forget(w);
    }
    /// organizational ops are never classified removable
    #[kani::proof]
    fn keeps_organizational_ops() {
        let o = Op { opcode: Either::Right(any_org()), comment: Comment, owning_span: None };
        assert!(!classify(&o), "OB: a label or comment is classified removable");
        std::mem::forget(o);
    }
}
'''


def build(tier):
    specs = [
        {"id": "host", "file": MISC, "locator": HOST},
        {"id": "LET_REMOVE", "file": MISC, "locator": {"kind": "in_fn", "fn": HOST, "what": "let", "binds": "remove", "nth": 0}},
        {"id": "sj", "file": MISC, "locator": {"kind": "impl_fn", "self_ty": "AbstractInstructionSet", "name": "remove_sequential_jumps"}},
        {"id": "JumpType", "file": ML, "locator": item("enum", "JumpType")},
        {"id": "ControlFlowOp", "file": ML, "locator": item("enum", "ControlFlowOp")},
        {"id": "ConstantRegister", "file": VR, "locator": item("enum", "ConstantRegister")},
        {"id": "VirtualOp", "file": VO, "locator": item("enum", "VirtualOp")},
        {"id": "imm12_value", "file": VI, "locator": ifn("VirtualImmediate12", "value", "-")},
    ] + [{"id": "VirtualImmediate%s" % w, "file": VI, "locator": item("struct", "VirtualImmediate%s" % w)} for w in ("06", "12", "18", "24")] + [
        {"id": "CONST_" + n, "file": CC, "locator": item("const", n)} for n in ("TWENTY_FOUR_BITS", "EIGHTEEN_BITS", "TWELVE_BITS", "SIX_BITS")]
    fr = vf.extract(specs)
    rewrites = []
    rep = dict((k, v["text"]) for k, v in fr.items())
    let = rep["LET_REMOVE"]
    if not re.match(r"let\s+remove\s*=\s*match\s*&\s*op\s*\.\s*opcode\s*\{", let):
        raise vf.Undecided("remove_redundant_ops: the first `let remove` is no longer `match &op.opcode { .. }`; the classification contract does not apply")
    # every variant the statement names must be in the kept subset, otherwise the subsetting (R8) would hide an arm
    named = set(re.findall(r"VirtualOp::([A-Z][A-Z0-9_]*)", let))
    missing = named - MODELLED
    if missing:
        raise vf.Undecided("remove_redundant_ops now names VirtualOp variant(s) %s, for which the unit has neither a generator nor a VM model: the classification contract cannot be applied" % ", ".join(sorted(missing)))
    keep = KEEP | named
    rep["VirtualOp"] = filter_enum(rep["VirtualOp"], keep, rewrites)
    # remove_sequential_jumps: its one closure |(idx, ops)| <match> is the decision under contract
    sj = fr["sj"]
    cls = [c for c in sj["closures"] if ".filter_map(" in sj["text"][:c["start"]][-14:]]
    if len(cls) != 1:
        raise vf.Undecided("remove_sequential_jumps: expected exactly one filter_map closure, found %d" % len(cls))
    c = cls[0]
    pm = re.match(r"\|\s*\(\s*(\w+)\s*,\s*(\w+)\s*\)\s*\|", sj["text"][c["start"]:c["or2_end"]])
    if not pm or ".windows(2)" not in sj["text"][:c["start"]] or ".enumerate()" not in sj["text"][:c["start"]]:
        raise vf.Undecided("remove_sequential_jumps: the closure is no longer |(idx, ops)| over self.ops.windows(2).enumerate()")
    rep["SJ_P0"], rep["SJ_P1"], rep["SJ_BODY"] = pm.group(1), pm.group(2), sj["text"][c["body_start"]:c["body_end"]]
    for k in ("JumpType", "ControlFlowOp", "ConstantRegister", "VirtualOp", "VirtualImmediate06", "VirtualImmediate12", "VirtualImmediate18", "VirtualImmediate24"):
        rep[k] = "pub " + re.sub(r"^pub(\([a-z]+\))?\s+", "", rep[k])
    rep["VirtualImmediate12"] = rep["VirtualImmediate12"].replace("value: u16", "pub value: u16")
    rep["VirtualImmediate18"] = rep["VirtualImmediate18"].replace("value: u32", "pub value: u32")
    src = ENV
    for k, v in rep.items():
        src = src.replace("@%s@" % k, v)
    obs = [
        vf.Ob("removable_is_noop", "C07", panic_prop="C17",
              what="remove_redundant_ops, classification statement: an op classified removable leaves every general register and all memory unchanged on the VM (for every op of the kept variant subset, every register choice, every state)"),
        vf.Ob("removes_the_intended_shapes", "C07", panic_prop="C17", info_only=True, what="(non-alarming: a pass that removes less preserves behaviour too) NOOP, MOVE r r, MCP _ _ $zero, MCPI _ _ 0 are classified removable (non-vacuity of the pass)"),
        vf.Ob("sequential_jump_is_dead", "C07", panic_prop="C17",
              what="remove_sequential_jumps, filter_map closure over windows(2): an index is reported only if the first op is an unconditional or conditional jump whose target label is the very next op (every outcome continues at idx+1); calls are never removed"),
        vf.Ob("sequential_jump_recognised", "C07", panic_prop="C17", info_only=True, what="(non-alarming) unconditional / conditional jumps to the next line are reported by the closure"),
        vf.Ob("keeps_organizational_ops", "C07", panic_prop="C17", what="labels / comments are never classified removable"),
    ]
    u = vf.KaniUnit("c07_redundant", {"src/lib.rs": src}, obs, deps={"either": "1"}, timeout_s=900, jobs=3, auto_files=[MISC, VO, VI])
    u.fragments = [vf.frag_record(fr[k]) for k in fr if k != "host"]  # host = remove_redundant_ops as a whole, only used to locate the statement
    u.rewrites = rewrites + [{"rule": "R5", "before": "first `let remove = match &op.opcode {..};` of remove_redundant_ops", "after": "fn classify(op: &Op) -> bool { <statement> remove }", "times": 1},
                             {"rule": "R1", "before": "private fields / derives of VirtualImmediate*", "after": "pub value, plain derives", "times": 4}]
    u.assumptions = [
        "VM semantics of NOOP / MOVE / MCP / MCPI / MOVI / NOT on general registers and memory written by hand from fuel-specs (step); $pc, $of, $err are outside the state: the second `let remove` (def_const_registers of the op vs use_registers of the NEXT op) is what protects the flags and is read, not contracted (HashSet/BTreeSet intersection does not finish in CBMC); liveness of $of/$err beyond the next op is not checked by the pass at all",
        "a zero-length MCP/MCPI is taken to have no effect; the VM's bounds/ownership panic on a garbage destination with length 0 is not modelled",
        "VirtualRegister names are u8 (3 virtual registers + $zero, $one, one other reserved register); memory is a 4-byte window; VirtualOp cut to %d variants (R8) -- every other variant falls into the statement's `_ => false`" % len(keep),
        "Label is a usize newtype shim; Op.comment is a unit type; that the NOOP written at the reported index replaces the jump (the `for idx in dead_jumps` loop) is read, not contracted",
    ]
    return [u]
