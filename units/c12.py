"""C12 unit (partial): consecutive storage-slot keys, add_to_b256 with the real `uint` crate."""
import vf

SF = "sway-core/src/ir_generation/storage.rs"

ENV = r'''
#![allow(unused, dead_code, clippy::all)]
/// shim of fuel_types::Bytes32: 32 bytes, Deref to the array, From<[u8; 32]>
#[derive(Clone, Copy, Debug, PartialEq)]
pub struct Bytes32(pub [u8; 32]);
impl core::ops::Deref for Bytes32 { type Target = [u8; 32]; fn deref(&self) -> &[u8; 32] { &self.0 } }
impl From<[u8; 32]> for Bytes32 { fn from(b: [u8; 32]) -> Self { Bytes32(b) } }
use uint::construct_uint;
// ---------------- extracted verbatim from sway-core/src/ir_generation/storage.rs ----------------
@add_to_b256@

pub struct StorageSlot;
// serialize_to_storage_slots, arm `ConstantValue::Array(_a) if ty.is_array(context)` -- verbatim body
pub fn storage_slots_of_array() -> Vec<StorageSlot> { @ARRAY_ARM@ }

#[cfg(kani)]
mod h {
    use super::*;
    /// a storage field of array type must be serialised (or rejected with a diagnostic), not abort the compiler
    #[kani::proof]
    fn array_field_total() { let v = storage_slots_of_array(); std::mem::forget(v); }
    /// reference: big-endian 256-bit + 64-bit addition, limb by limb with explicit carries; None on overflow of 2^256
    fn spec_add(x: &[u8; 32], y: u64) -> Option<[u8; 32]> {
        let mut out = [0u8; 32];
        let mut carry: u128 = y as u128;
        let mut limb = 0;
        while limb < 4 {
            let lo = 32 - 8 * (limb + 1);
            let mut w = [0u8; 8]; w.copy_from_slice(&x[lo..lo + 8]);
            let s = u64::from_be_bytes(w) as u128 + carry;
            out[lo..lo + 8].copy_from_slice(&((s & 0xffff_ffff_ffff_ffff) as u64).to_be_bytes());
            carry = s >> 64;
            limb += 1;
        }
        if carry == 0 { Some(out) } else { None }
    }
    #[kani::proof] #[kani::unwind(34)]
    fn add_to_b256_value() {
        let x: [u8; 32] = kani::any();
        let y: u64 = kani::any();
        let want = spec_add(&x, y);
        kani::assume(want.is_some());
        let got = add_to_b256(Bytes32(x), y);
        assert!(got.0 == want.unwrap(), "OB: slot key i is not base + i (256-bit big-endian)");
    }
    #[kani::proof] #[kani::unwind(34)]
    fn add_to_b256_total() {
        let x: [u8; 32] = kani::any();
        let y: u64 = kani::any();
        let _ = add_to_b256(Bytes32(x), y);
    }
}
'''


def build(tier):
    fr = vf.extract([{"id": "add_to_b256", "file": SF, "locator": {"kind": "fn", "name": "add_to_b256", "attrs": "strip"}},
                     {"id": "slots", "file": SF, "locator": {"kind": "in_fn", "fn": {"kind": "fn", "name": "serialize_to_storage_slots"}, "what": "match",
                                                             "scrutinee": "&constant.get_content(context).value", "nth": 0}}])
    arm = [a for a in fr["slots"]["arms"] if a["pat"].replace(" ", "").startswith("ConstantValue::Array(")]
    if len(arm) != 1:
        raise vf.Undecided("serialize_to_storage_slots: Array arm not found")
    src = ENV.replace("@add_to_b256@", fr["add_to_b256"]["text"].replace("pub(super) fn", "pub fn")).replace("@ARRAY_ARM@", arm[0]["body"])
    obs = [vf.Ob("add_to_b256_value", "C12", panic_prop="C17", what="add_to_b256(x, y) == x + y as 256-bit big-endian whenever the sum fits: consecutive slots of one field are base, base+1, ..."),
           vf.Ob("add_to_b256_total", "C12", panic_prop="C17", known="D9", what="add_to_b256 never panics (the `uint` crate's + panics on overflow of 2^256)")]
    obs.append(vf.Ob("array_field_total", "C12", panic_prop="C17", known="D18", what="serialize_to_storage_slots, Array arm: a storage field of array type does not abort the compiler"))
    u = vf.KaniUnit("c12_keys", {"src/lib.rs": src}, obs, deps={"uint": "0.9"}, timeout_s=900, jobs=2, auto_files=[SF])
    u.fragments = [vf.frag_record(fr["add_to_b256"]), dict(vf.frag_record(fr["slots"]), note="arm ConstantValue::Array at line %d" % arm[0]["line"])]
    u.rewrites = [{"rule": "R1", "before": "pub(super) fn / #[allow(..)] attribute", "after": "pub fn", "times": 1}]
    u.assumptions = ["fuel_types::Bytes32 shimmed as a 32-byte newtype; the real `uint` crate is used",
                     "unverified (C12 is claimed for the slot-key arithmetic only): get_storage_key_string / hash_storage_key_string (format!/join string building), serialize_to_words layout, "
                     "the Sway side (storage_api.sw) that reads the slots back, disjointness across fields beyond SHA-256 collision freedom"]
    return [u]
