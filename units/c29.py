"""C29 units: TestResult::passed (verdict) and the terminal-state loop of TestExecutor::execute."""
import glob
import re

import vf


def registry_file(crate, rel):
    lock = open(vf.REPO + "/Cargo.lock").read()
    m = re.search(r'name = "%s"\nversion = "([^"]+)"' % re.escape(crate), lock)
    if not m:
        raise vf.Undecided("crate %s not in Cargo.lock" % crate)
    hits = glob.glob("/root/.cargo/registry/src/*/%s-%s/%s" % (crate, m.group(1), rel))
    if not hits:
        raise vf.Undecided("vendored %s-%s/%s not found" % (crate, m.group(1), rel))
    return hits[0]


ENV_RS = r'''
#![allow(unused, dead_code, unused_parens, clippy::all)]
// ---- environment (hand-written shims; listed in the evidence) ----
pub type Word = u64;
pub type Bytes32 = [u8; 32];
/// shim for fuel_vm::state::DebugEval (payload irrelevant to the verdict)
#[derive(Debug, Clone, Copy, PartialEq, Eq, Hash)]
pub enum DebugEval { Breakpoint(u64), Continue }
pub mod vm { pub mod state {
    use super::super::*;
    // ---- extracted verbatim from fuel-vm (R1: serde cfg_attr stripped) ----
    #[derive(Debug, Clone, Copy, PartialEq, Eq, Hash)]
    @PROGRAM_STATE@
} }
// ---- extracted verbatim from forc-pkg/src/pkg.rs ----
#[derive(Debug, Clone, Copy, PartialEq, Eq)]
@TEST_PASS_CONDITION@
/// shim: only the two fields `passed` reads (the real struct also has name, duration, span, logs, gas_used, ecal)
pub struct TestResult { pub state: vm::state::ProgramState, pub condition: TestPassCondition }
impl TestResult {
    // ---- extracted verbatim from forc-test/src/lib.rs ----
    @PASSED@
}

// ---- environment for the terminal-state loop of TestExecutor::execute ----
pub struct Interp { pub steps: u8, pub last: Option<Result<vm::state::ProgramState, ()>> }
impl Interp {
    /// contract stub of Interpreter::resume: any result; ghost-records what it returned
    pub fn resume(&mut self) -> Result<vm::state::ProgramState, ()> {
        #[cfg(kani)] { kani::assume(self.steps < 3); }
        self.steps += 1;
        let r: Result<vm::state::ProgramState, ()> = if nondet_bool() { Ok(any_state()) } else { Err(()) };
        self.last = Some(r);
        r
    }
}
pub struct Exec { pub interpreter: Interp }
impl Exec {
    pub fn run_to_end(&mut self, first: vm::state::ProgramState) -> Result<vm::state::ProgramState, ()> {
        use vm::state::ProgramState;
        let mut state: Result<ProgramState, ()> = Ok(first);
        // ---- extracted verbatim from forc-test/src/execute.rs, TestExecutor::execute, loop #0 ----
        @EXEC_LOOP@
        state
    }
}
#[cfg(kani)] fn nondet_bool() -> bool { kani::any() }
#[cfg(not(kani))] fn nondet_bool() -> bool { false }
#[cfg(kani)]
pub fn any_state() -> vm::state::ProgramState {
    use vm::state::ProgramState::*;
    match kani::any::<u8>() % 5 {
        0 => Return(kani::any()), 1 => ReturnData(kani::any()), 2 => Revert(kani::any()),
        3 => RunProgram(if kani::any() { DebugEval::Breakpoint(kani::any()) } else { DebugEval::Continue }),
        _ => VerifyPredicate(if kani::any() { DebugEval::Breakpoint(kani::any()) } else { DebugEval::Continue }),
    }
}
#[cfg(not(kani))] pub fn any_state() -> vm::state::ProgramState { vm::state::ProgramState::Return(0) }

#[cfg(kani)]
mod h {
    use super::*;
    use super::vm::state::ProgramState;
    fn is_revert(s: ProgramState) -> bool { if let ProgramState::Revert(_) = s { true } else { false } }
    fn revert_code(s: ProgramState) -> Option<u64> { if let ProgramState::Revert(c) = s { Some(c) } else { None } }

    /// post (from the property): passed <=> execution matches the declared expectation
    #[kani::proof]
    fn passed_verdict() {
        let st = any_state();
        let cond = match kani::any::<u8>() % 3 { 0 => TestPassCondition::ShouldNotRevert,
            1 => TestPassCondition::ShouldRevert(None), _ => TestPassCondition::ShouldRevert(Some(kani::any())) };
        let r = TestResult { state: st, condition: cond }.passed();
        let spec = match cond {
            TestPassCondition::ShouldNotRevert => revert_code(st).is_none(),
            TestPassCondition::ShouldRevert(None) => revert_code(st).is_some(),
            TestPassCondition::ShouldRevert(Some(c)) => revert_code(st) == Some(c),
        };
        kani::cover!(r && is_revert(st));
        kani::cover!(r && !is_revert(st));
        kani::cover!(!r && is_revert(st));
        kani::cover!(!r && !is_revert(st));
        assert!(r == spec, "OB: passed() equals the declared expectation");
    }

    /// post: the loop ends in a terminal state; a VM error maps to Revert(0); Return/ReturnData/Revert are kept unchanged
    #[kani::proof]
    #[kani::unwind(34)]
    fn execute_terminal_state() {
        let first = any_state();
        let mut e = Exec { interpreter: Interp { steps: 0, last: None } };
        let out = e.run_to_end(first);
        let last = match e.interpreter.last { None => Ok(first), Some(r) => r };
        kani::cover!(e.interpreter.steps == 0);
        kani::cover!(e.interpreter.steps == 3);
        kani::cover!(last.is_err());
        match out {
            Err(_) => assert!(false, "OB: execute never leaves an Err state"),
            Ok(s) => {
                assert!(matches!(s, ProgramState::Return(_) | ProgramState::ReturnData(_) | ProgramState::Revert(_)), "OB: final state is terminal");
                match last { Err(_) => assert!(s == ProgramState::Revert(0), "OB: VM error is reported as Revert(0)"),
                             Ok(l) => assert!(s == l, "OB: terminal VM state is reported unchanged") }
            }
        }
    }
}
'''


def build(tier):
    specs = [
        {"id": "passed", "file": "forc-test/src/lib.rs", "locator": {"kind": "impl_fn", "self_ty": "TestResult", "name": "passed"}},
        {"id": "tpc", "file": "forc-pkg/src/pkg.rs", "locator": {"kind": "item", "item": "enum", "name": "TestPassCondition", "attrs": "strip"}},
        {"id": "pstate", "file": registry_file("fuel-vm", "src/state.rs"), "locator": {"kind": "item", "item": "enum", "name": "ProgramState", "attrs": "strip"}},
        {"id": "execute", "file": "forc-test/src/execute.rs", "locator": {"kind": "impl_fn", "self_ty": "TestExecutor", "name": "execute"}},
    ]
    fr = vf.extract(specs)
    rewrites = []
    ex = fr["execute"]
    if len(ex["loops"]) != 1 or ex["loops"][0]["kind"] != "loop":
        raise vf.Undecided("TestExecutor::execute no longer has exactly one `loop`")
    lp = ex["loops"][0]
    loop_text = ex["text"][lp["start"]:lp["body_close"]]
    src = (ENV_RS.replace("@PROGRAM_STATE@", fr["pstate"]["text"]).replace("@TEST_PASS_CONDITION@", fr["tpc"]["text"])
           .replace("@PASSED@", fr["passed"]["text"]).replace("@EXEC_LOOP@", loop_text))
    obs = [
        vf.Ob("passed_verdict", "C29", complete=True, what="TestResult::passed() <=> state matches the declared pass condition, all states x all u64 codes",
              inputs=["state_tag", "..."]),
        vf.Ob("execute_terminal_state", "C29", complete=False, bound="at most 3 Interpreter::resume calls after the first state (unwind 34, needed by memcmp on Bytes32); states and codes fully symbolic",
              what="execute's loop: VM error -> Revert(0); Return/ReturnData/Revert reported unchanged; always terminal"),
    ]
    u = vf.KaniUnit("c29_verdict", {"src/lib.rs": src}, obs, timeout_s=300, jobs=2, auto_files=["forc-test/src/lib.rs", "forc-test/src/execute.rs"])
    u.fragments = [vf.frag_record(fr[k]) for k in ("passed", "tpc", "pstate")] + [
        dict(vf.frag_record(ex), note="loop #0 of this fn, bytes %d..%d of the fragment" % (lp["start"], lp["body_close"]))]
    u.rewrites = rewrites + [{"rule": "R1", "before": "derive/cfg_attr attributes of ProgramState, TestPassCondition", "after": "plain derives", "times": 2}]
    u.assumptions = [
        "TestResult shimmed to the two fields passed() reads (state, condition)",
        "fuel_vm DebugEval shimmed (payload not inspected by the verdict)",
        "Interpreter::resume replaced by a contract stub returning an arbitrary Result<ProgramState,()>",
    ]
    return [u]
