"""C29 units: TestResult::passed (verdict) and the terminal-state loop of TestExecutor::execute."""
import glob
import re

import vf


def registry_file(crate, rel):
    lock = open(vf.REPO + "/Cargo.lock").read()
    m = re.search(r'name = "%s"\nversion = "([^"]+)"' % re.escape(crate), lock)
    if not m:
        raise vf.Undecided("crate %s not in Cargo.lock" % crate)
    hits = glob.glob("/root/.cargo/registry/src/*/%s-%s/%s" % (crate, m.group(1), rel))
    if not hits:
        raise vf.Undecided("vendored %s-%s/%s not found" % (crate, m.group(1), rel))
    return hits[0]


ENV_RS = r'''
#![allow(unused, dead_code, unused_parens, clippy::all)]
// ---- environment (hand-written shims; listed in the evidence) ----
pub type Word = u64;
pub type Bytes32 = [u8; 32];
/// shim for fuel_vm::state::DebugEval (payload irrelevant to the verdict)
#[derive(Debug, Clone, Copy, PartialEq, Eq, Hash)]
pub enum DebugEval { Breakpoint(u64), Continue }
pub mod vm { pub mod state {
    use super::super::*;
    // ---- extracted verbatim from fuel-vm (R1: serde cfg_attr stripped) ----
    #[derive(Debug, Clone, Copy, PartialEq, Eq, Hash)]
    @PROGRAM_STATE@
} }
// ---- extracted verbatim from forc-pkg/src/pkg.rs ----
#[derive(Debug, Clone, Copy, PartialEq, Eq)]
@TEST_PASS_CONDITION@
/// shim: only the two fields `passed` reads (the real struct also has name, duration, span, logs, gas_used, ecal)
pub struct TestResult { pub state: vm::state::ProgramState, pub condition: TestPassCondition }
impl TestResult {
    // ---- extracted verbatim from forc-test/src/lib.rs ----
    @PASSED@
}

// ---- environment for the terminal-state loop of TestExecutor::execute ----
pub struct Interp { pub steps: u8, pub last: Option<Result<vm::state::ProgramState, ()>> }
impl Interp {
    /// contract stub of Interpreter::resume: any result; ghost-records what it returned
    pub fn resume(&mut self) -> Result<vm::state::ProgramState, ()> {
        #[cfg(kani)] { kani::assume(self.steps < 3); }
        self.steps += 1;
        let r: Result<vm::state::ProgramState, ()> = if nondet_bool() { Ok(any_state()) } else { Err(()) };
        self.last = Some(r);
        r
    }
}
pub struct Exec { pub interpreter: Interp }
impl Exec {
    pub fn run_to_end(&mut self, first: vm::state::ProgramState) -> Result<vm::state::ProgramState, ()> {
        use vm::state::ProgramState;
        let mut state: Result<ProgramState, ()> = Ok(first);
        // ---- extracted verbatim from forc-test/src/execute.rs, TestExecutor::execute, loop #0 ----
        @EXEC_LOOP@
        state
    }
}
#[cfg(kani)] fn nondet_bool() -> bool { kani::any() }
#[cfg(not(kani))] fn nondet_bool() -> bool { false }
#[cfg(kani)]
pub fn any_state() -> vm::state::ProgramState {
    use vm::state::ProgramState::*;
    match kani::any::<u8>() % 5 {
        0 => Return(kani::any()), 1 => ReturnData(kani::any()), 2 => Revert(kani::any()),
        3 => RunProgram(if kani::any() { DebugEval::Breakpoint(kani::any()) } else { DebugEval::Continue }),
        _ => VerifyPredicate(if kani::any() { DebugEval::Breakpoint(kani::any()) } else { DebugEval::Continue }),
    }
}
#[cfg(not(kani))] pub fn any_state() -> vm::state::ProgramState { vm::state::ProgramState::Return(0) }

#[cfg(kani)]
mod h {
    use super::*;
    use super::vm::state::ProgramState;
    fn is_revert(s: ProgramState) -> bool { if let ProgramState::Revert(_) = s { true } else { false } }
    fn revert_code(s: ProgramState) -> Option<u64> { if let ProgramState::Revert(c) = s { Some(c) } else { None } }

    /// post (from the property): passed <=> execution matches the declared expectation
    #[kani::proof]
    fn passed_verdict() {
        let st = any_state();
        let cond = match kani::any::<u8>() % 3 { 0 => TestPassCondition::ShouldNotRevert,
            1 => TestPassCondition::ShouldRevert(None), _ => TestPassCondition::ShouldRevert(Some(kani::any())) };
        let r = TestResult { state: st, condition: cond }.passed();
        let spec = match cond {
            TestPassCondition::ShouldNotRevert => revert_code(st).is_none(),
            TestPassCondition::ShouldRevert(None) => revert_code(st).is_some(),
            TestPassCondition::ShouldRevert(Some(c)) => revert_code(st) == Some(c),
        };
        kani::cover!(r && is_revert(st));
        kani::cover!(r && !is_revert(st));
        kani::cover!(!r && is_revert(st));
        kani::cover!(!r && !is_revert(st));
        assert!(r == spec, "OB: passed() equals the declared expectation");
    }

    /// post: the loop ends in a terminal state; a VM error maps to Revert(0); Return/ReturnData/Revert are kept unchanged
    #[kani::proof]
    #[kani::unwind(34)]
    fn execute_terminal_state() {
        let first = any_state();
        let mut e = Exec { interpreter: Interp { steps: 0, last: None } };
        let out = e.run_to_end(first);
        let last = match e.interpreter.last { None => Ok(first), Some(r) => r };
        kani::cover!(e.interpreter.steps == 0);
        kani::cover!(e.interpreter.steps == 3);
        kani::cover!(last.is_err());
        match out {
            Err(_) => assert!(false, "OB: execute never leaves an Err state"),
            Ok(s) => {
                assert!(matches!(s, ProgramState::Return(_) | ProgramState::ReturnData(_) | ProgramState::Revert(_)), "OB: final state is terminal");
                match last { Err(_) => assert!(s == ProgramState::Revert(0), "OB: VM error is reported as Revert(0)"),
                             Ok(l) => assert!(s == l, "OB: terminal VM state is reported unchanged") }
            }
        }
    }
}
'''


VERUS = r'''use vstd::prelude::*;
verus! {
pub type Word = u64;
pub type Bytes32 = [u8; 32];
/// shim for fuel_vm::state::DebugEval
#[derive(Clone, Copy)]
pub enum DebugEval { Breakpoint(u64), Continue }
// ---- extracted verbatim from fuel-vm src/state.rs (R1) ----
#[derive(Clone, Copy)]
@PROGRAM_STATE@
pub struct IErr;
pub struct Interp { _p: () }
impl Interp {
    /// ASSUMED contract of Interpreter::resume: returns any result
    #[verifier::external_body]
    pub fn resume(&mut self) -> (r: Result<ProgramState, IErr>) { unimplemented!() }
}
pub struct Exec { pub interpreter: Interp }
pub open spec fn terminal(s: ProgramState) -> bool { s is Return || s is ReturnData || s is Revert }

impl Exec {
/// TestExecutor::execute, loop #0 (verbatim; R2: loop contract and one ghost assignment spliced in).
/// No `decreases`: the VM may run forever; partial correctness only.
#[verifier::exec_allows_no_decreases_clause]
pub fn execute_loop(&mut self, first: ProgramState) -> (state: Result<ProgramState, IErr>)
    ensures state is Ok, terminal(state->Ok_0),
{
    let mut state: Result<ProgramState, IErr> = Ok(first);
    let ghost mut prev = state;
    @LOOP@
    state
}
}
} // verus!
fn main() {}
'''

LOOP_CONTRACT = '''
        invariant_except_break true,
        // `prev` is the state at the head of the last iteration, i.e. the first state or the last result of resume():
        // a VM error is reported as Revert(0); a terminal state is reported unchanged; nothing else leaves the loop
        ensures match prev { Err(_) => state matches Ok(s) && s == ProgramState::Revert(0), Ok(p) => terminal(p) && state == Ok::<ProgramState, IErr>(p) },
    '''


def build_verus(tier):
    fr = vf.extract([
        {"id": "pstate", "file": registry_file("fuel-vm", "src/state.rs"), "locator": {"kind": "item", "item": "enum", "name": "ProgramState", "attrs": "strip"}},
        {"id": "execute", "file": "forc-test/src/execute.rs", "locator": {"kind": "impl_fn", "self_ty": "TestExecutor", "name": "execute"}},
    ])
    ex = fr["execute"]
    if len(ex["loops"]) != 1 or ex["loops"][0]["kind"] != "loop":
        raise vf.Undecided("TestExecutor::execute no longer has exactly one `loop`")
    lp = ex["loops"][0]
    head = ex["text"][lp["start"]:lp["body_open"]]
    body = ex["text"][lp["body_open"]:lp["body_close"]]
    if head.strip() != "loop":
        raise vf.Undecided("unexpected loop header %r" % head)
    loop = "loop" + LOOP_CONTRACT + "{\n            proof { prev = state; }" + body[1:]
    src = VERUS.replace("@PROGRAM_STATE@", fr["pstate"]["text"]).replace("@LOOP@", loop)
    obs = [vf.Ob("execute_loop", "C29", what="TestExecutor::execute's loop, for ANY number of resume steps: it ends only in Return/ReturnData/Revert, reported unchanged, or in Revert(0) after a VM error (partial correctness)")]
    u = vf.VerusUnit("c29_execute_loop", src, obs, extra_args=["--triggers-mode", "silent"])
    u.fragments = [vf.frag_record(fr["pstate"]), dict(vf.frag_record(ex), note="loop #0 of this fn")]
    u.rewrites = [{"rule": "R2", "before": "loop {", "after": "loop invariant_except_break/ensures { proof { prev = state; }", "times": 1},
                  {"rule": "R1", "before": "derives of ProgramState", "after": "Clone, Copy", "times": 1}]
    u.assumptions = ["Interpreter::resume returns an arbitrary Result<ProgramState, _> (assumed contract)", "termination is not claimed (the VM may run forever)"]
    return [u]


def build(tier):
    specs = [
        {"id": "passed", "file": "forc-test/src/lib.rs", "locator": {"kind": "impl_fn", "self_ty": "TestResult", "name": "passed"}},
        {"id": "tpc", "file": "forc-pkg/src/pkg.rs", "locator": {"kind": "item", "item": "enum", "name": "TestPassCondition", "attrs": "strip"}},
        {"id": "pstate", "file": registry_file("fuel-vm", "src/state.rs"), "locator": {"kind": "item", "item": "enum", "name": "ProgramState", "attrs": "strip"}},
        {"id": "execute", "file": "forc-test/src/execute.rs", "locator": {"kind": "impl_fn", "self_ty": "TestExecutor", "name": "execute"}},
    ]
    fr = vf.extract(specs)
    rewrites = []
    ex = fr["execute"]
    if len(ex["loops"]) != 1 or ex["loops"][0]["kind"] != "loop":
        raise vf.Undecided("TestExecutor::execute no longer has exactly one `loop`")
    lp = ex["loops"][0]
    loop_text = ex["text"][lp["start"]:lp["body_close"]]
    src = (ENV_RS.replace("@PROGRAM_STATE@", fr["pstate"]["text"]).replace("@TEST_PASS_CONDITION@", fr["tpc"]["text"])
           .replace("@PASSED@", fr["passed"]["text"]).replace("@EXEC_LOOP@", loop_text))
    obs = [
        vf.Ob("passed_verdict", "C29", complete=True, what="TestResult::passed() <=> state matches the declared pass condition, all states x all u64 codes",
              inputs=["state_tag", "..."]),
        vf.Ob("execute_terminal_state", "C29", complete=False, bound="at most 3 Interpreter::resume calls after the first state (unwind 34, needed by memcmp on Bytes32); states and codes fully symbolic",
              what="execute's loop: VM error -> Revert(0); Return/ReturnData/Revert reported unchanged; always terminal"),
    ]
    u = vf.KaniUnit("c29_verdict", {"src/lib.rs": src}, obs, timeout_s=300, jobs=2, auto_files=["forc-test/src/lib.rs", "forc-test/src/execute.rs"])
    u.fragments = [vf.frag_record(fr[k]) for k in ("passed", "tpc", "pstate")] + [
        dict(vf.frag_record(ex), note="loop #0 of this fn, bytes %d..%d of the fragment" % (lp["start"], lp["body_close"]))]
    u.rewrites = rewrites + [{"rule": "R1", "before": "derive/cfg_attr attributes of ProgramState, TestPassCondition", "after": "plain derives", "times": 2}]
    u.assumptions = [
        "TestResult shimmed to the two fields passed() reads (state, condition)",
        "fuel_vm DebugEval shimmed (payload not inspected by the verdict)",
        "Interpreter::resume replaced by a contract stub returning an arbitrary Result<ProgramState,()>",
    ]
    return [u]
