"""IR const-folding units (C03/C06/C17): the rule matches of sway-ir/src/optimize/constants.rs on 64-bit operands.

Every `match` is copied verbatim (R0) into a wrapper function whose parameters are the names the match
refers to; the harnesses compare the result with the FuelVM ALU oracle for every u64 x u64 and every $flag.
"""
import vf

F = "sway-ir/src/optimize/constants.rs"


def _in(fn, scrutinee, nth=None):
    loc = {"kind": "in_fn", "fn": {"kind": "fn", "name": fn}, "what": "match", "scrutinee": scrutinee}
    if nth is not None:
        loc["nth"] = nth
    return loc


SPECS = [
    {"id": "bin", "file": F, "locator": _in("combine_binary_op", "(op, &val1.value, &val2.value)")},
    {"id": "un", "file": F, "locator": _in("combine_unary_op", "(op, &val.get_content(context).value)")},
    {"id": "cmp", "file": F, "locator": _in("combine_cmp", "pred")},
    {"id": "useless", "file": F, "locator": _in("remove_useless_binary_op", "(op, val1, val2)")},
    {"id": "cbr", "file": F, "locator": _in("combine_cbr", "&cond_value.get_constant(context).unwrap().get_content(context).value")},
    {"id": "ConstantValue", "file": "sway-ir/src/constant.rs", "locator": {"kind": "item", "item": "enum", "name": "ConstantValue", "attrs": "strip"}},
    {"id": "ConstantContent", "file": "sway-ir/src/constant.rs", "locator": {"kind": "item", "item": "struct", "name": "ConstantContent", "attrs": "strip"}},
    {"id": "BinaryOpKind", "file": "sway-ir/src/instruction.rs", "locator": {"kind": "item", "item": "enum", "name": "BinaryOpKind", "attrs": "strip"}},
    {"id": "UnaryOpKind", "file": "sway-ir/src/instruction.rs", "locator": {"kind": "item", "item": "enum", "name": "UnaryOpKind", "attrs": "strip"}},
    {"id": "Predicate", "file": "sway-ir/src/instruction.rs", "locator": {"kind": "item", "item": "enum", "name": "Predicate", "attrs": "strip"}},
    # the IR-op -> VM-op lowering table (so that the oracle binding Add->ADD ... is read from the code, not assumed)
    {"id": "lower", "file": "sway-core/src/asm_generation/fuel/fuel_asm_builder.rs",
     "locator": {"kind": "in_fn", "fn": {"kind": "impl_fn", "self_ty": "FuelAsmBuilder<'ir, 'eng>", "name": "compile_binary_op"}, "what": "match", "scrutinee": "op", "nth": 0}},
]

ENV = r'''
#![allow(unused, dead_code, unused_parens, unreachable_patterns, unreachable_code, non_snake_case, clippy::all)]
include!("vm_alu.rs");
use vm_alu::Out;

// ---------------- environment (shims) ----------------
pub struct Context;
/// shim of sway_ir::Type: only the integer width is observable here
#[derive(Clone, Copy, Debug, PartialEq)]
pub struct Type { pub width: Option<u16> }
impl Type { pub fn get_uint_width(&self, _c: &Context) -> Option<u16> { self.width } }
/// stub of sway_types::U256 for the 64-bit unit: never constructed by these harnesses (the 256-bit arms are verified in Verus)
#[derive(Clone, Debug, PartialEq, PartialOrd)]
pub struct U256(());
pub type B256 = U256;
impl U256 {
    pub fn checked_add(&self, _o: &U256) -> Option<U256> { unreachable!() }
    pub fn checked_sub(&self, _o: &U256) -> Option<U256> { unreachable!() }
    pub fn checked_mul(&self, _o: &U256) -> Option<U256> { unreachable!() }
    pub fn checked_div(&self, _o: &U256) -> Option<U256> { unreachable!() }
    pub fn checked_rem(&self, _o: &U256) -> Option<U256> { unreachable!() }
    pub fn checked_shl(&self, _o: &u64) -> Option<U256> { unreachable!() }
    pub fn shr(&self, _o: &u64) -> U256 { unreachable!() }
}
impl<'a> std::ops::BitAnd<&'a U256> for &'a U256 { type Output = U256; fn bitand(self, _r: Self) -> U256 { unreachable!() } }
impl<'a> std::ops::BitOr<&'a U256> for &'a U256 { type Output = U256; fn bitor(self, _r: Self) -> U256 { unreachable!() } }
impl<'a> std::ops::BitXor<&'a U256> for &'a U256 { type Output = U256; fn bitxor(self, _r: Self) -> U256 { unreachable!() } }
impl<'a> std::ops::Not for &'a U256 { type Output = U256; fn not(self) -> U256 { unreachable!() } }

// ---------------- extracted verbatim from sway-ir (R1: derives replaced) ----------------
#[derive(Debug, Clone)]
@ConstantValue@
#[derive(Debug, Clone)]
@ConstantContent@
#[derive(Debug, Clone, Copy, PartialEq, Eq)]
@BinaryOpKind@
#[derive(Debug, Clone, Copy, PartialEq, Eq)]
@UnaryOpKind@
#[derive(Debug, Clone, Copy, PartialEq, Eq)]
@Predicate@

/// shim of a `Constant` handle: get_content gives the content back
pub struct Konst<'a>(pub &'a ConstantContent);
impl<'a> Konst<'a> { pub fn get_content(&self, _c: &Context) -> &ConstantContent { self.0 } }
impl<'a> PartialEq for Konst<'a> {
    /// shim of Constant == Constant (handles of uniqued constants): equal iff same type and same u64 value
    fn eq(&self, o: &Self) -> bool { match (&self.0.value, &o.0.value) { (ConstantValue::Uint(a), ConstantValue::Uint(b)) => a == b && self.0.ty == o.0.ty, _ => unreachable!() } }
}

// combine_binary_op: `let v = match (op, &val1.value, &val2.value) {..}` -- verbatim
pub fn fold_binary(op: &BinaryOpKind, val1: &ConstantContent, val2: &ConstantContent) -> Option<ConstantValue> {
    use BinaryOpKind::*;
    use ConstantValue::*;
    let v = @bin@;
    v
}
// combine_unary_op: `let v = match (op, &val.get_content(context).value) {..}` -- verbatim
pub fn fold_unary(op: &UnaryOpKind, val: Konst, context: &Context) -> Option<ConstantValue> {
    use UnaryOpKind::*;
    use ConstantValue::*;
    let v = @un@;
    v
}
// combine_cmp: `match pred {..}` -- verbatim
pub fn fold_cmp(pred: &Predicate, val1: Konst, val2: Konst, context: &Context) -> Option<((), (), bool)> {
    use ConstantValue::*;
    let inst_val = ();
    let block = ();
    @cmp@
}
// remove_useless_binary_op: `match (op, val1, val2) {..}` -- verbatim
#[derive(Clone, Copy, PartialEq, Debug)]
pub struct Value(pub u8);
pub fn useless(op: &BinaryOpKind, val1: Option<&ConstantValue>, val2: Option<&ConstantValue>, arg1: &Value, arg2: &Value) -> Option<((), (), Value)> {
    use BinaryOpKind::*;
    use ConstantValue::*;
    let block = ();
    let candidate = ();
    @useless@
}
// combine_cbr: inner `match &cond_value.get_constant(context).unwrap().get_content(context).value {..}` -- verbatim
#[derive(Clone, PartialEq, Debug)]
pub struct BranchToWithArgs { pub block: u8 }
pub enum IrError { VerifyConditionExprNotABool }
pub struct CondValue<'a>(pub &'a ConstantContent);
impl<'a> CondValue<'a> { pub fn get_constant(&self, _c: &Context) -> Option<Konst<'a>> { Some(Konst(self.0)) } }
pub fn cbr(cond_value: &CondValue, true_block: &BranchToWithArgs, false_block: &BranchToWithArgs, context: &Context)
    -> Option<Result<((), (), BranchToWithArgs, BranchToWithArgs), IrError>> {
    let inst_val = ();
    let in_block = ();
    @cbr@
}

// compile_binary_op: IR op -> VM opcode table, verbatim; the shim VirtualOp records only the opcode name
#[derive(Clone, Copy, PartialEq, Debug)]
pub enum VirtualOp { ADD((),(),()), SUB((),(),()), MUL((),(),()), DIV((),(),()), AND((),(),()), OR((),(),()), XOR((),(),()), MOD((),(),()), SRL((),(),()), SLL((),(),()),
    EXP((),(),()), MLOG((),(),()), MROO((),(),()), NOT((),()), EQ((),(),()), GT((),(),()), LT((),(),()) }
pub enum Either<L, R> { Left(L), Right(R) }
pub fn lower(op: &BinaryOpKind) -> Either<VirtualOp, ()> {
    let res_reg = (); let val1_reg = (); let val2_reg = ();
    @lower@
}
/// oracle dispatch: run the VM opcode that the real lowering table selects for `op`
pub fn vm_binary(op: &BinaryOpKind, l: u64, r: u64, flag: u64) -> Out {
    match lower(op) {
        Either::Left(VirtualOp::ADD(..)) => vm_alu::add(l, r, flag), Either::Left(VirtualOp::SUB(..)) => vm_alu::sub(l, r, flag),
        Either::Left(VirtualOp::MUL(..)) => vm_alu::mul(l, r, flag), Either::Left(VirtualOp::DIV(..)) => vm_alu::div(l, r, flag),
        Either::Left(VirtualOp::AND(..)) => vm_alu::and(l, r, flag), Either::Left(VirtualOp::OR(..)) => vm_alu::or(l, r, flag),
        Either::Left(VirtualOp::XOR(..)) => vm_alu::xor(l, r, flag), Either::Left(VirtualOp::MOD(..)) => vm_alu::modulo(l, r, flag),
        Either::Left(VirtualOp::SRL(..)) => vm_alu::srl(l, r, flag), Either::Left(VirtualOp::SLL(..)) => vm_alu::sll(l, r, flag),
        _ => unreachable!("lowering table yields an opcode the oracle does not know"),
    }
}

#[cfg(kani)]
mod h {
    use super::*;
    use std::mem::ManuallyDrop as MD;
    // ManuallyDrop everywhere: ConstantValue's drop glue is recursive (Vec<ConstantContent>) and CBMC would unwind it forever
    fn cc(v: u64, w: Option<u16>) -> MD<ConstantContent> { MD::new(ConstantContent { ty: Type { width: w }, value: ConstantValue::Uint(v) }) }
    fn any_width() -> Option<u16> { if kani::any() { Some(kani::any()) } else { None } }
    fn any_flag() -> u64 { let f: u64 = kani::any(); kani::assume(f < 4); f }

    // soundness: fold == Some(Uint(v))  ==>  the VM instruction yields v and does not panic, whatever $flag
    fn sound(op: BinaryOpKind) {
        let (l, r): (u64, u64) = (kani::any(), kani::any());
        let w = any_width();
        let f = MD::new(fold_binary(&op, &cc(l, w), &cc(r, w)));
        let flag = any_flag();
        kani::cover!(f.is_some());
        match &*f {
            None => {}
            Some(ConstantValue::Uint(v)) => {
                let v = *v;
                let o = vm_binary(&op, l, r, flag);
                assert!(o != Out::Panic, "OB: folded although the VM instruction panics (reverts)");
                assert!(o.value() == Some(v), "OB: folded value differs from the VM result");
            }
            Some(_) => assert!(false, "OB: folding two Uint operands yields a non-Uint constant"),
        }
    }
    // completeness (informational, non-alarming): with default flags, VM ok ==> folded
    fn complete(op: BinaryOpKind) {
        let (l, r): (u64, u64) = (kani::any(), kani::any());
        let f = MD::new(fold_binary(&op, &cc(l, Some(64)), &cc(r, Some(64))));
        if vm_binary(&op, l, r, 0) != Out::Panic && !(matches!(op, BinaryOpKind::Lsh | BinaryOpKind::Rsh) && r >= 64) {
            assert!(f.is_some(), "OB: (coverage) VM result is defined but the fold does not fire");
        }
    }
    @BIN_HARNESSES@

    #[kani::proof]
    fn un_not_w64() {
        let x: u64 = kani::any();
        let f = MD::new(fold_unary(&UnaryOpKind::Not, Konst(&cc(x, Some(64))), &Context));
        kani::cover!(f.is_some());
        match &*f { None => {}, Some(ConstantValue::Uint(v)) => assert!(vm_alu::not(x, any_flag()).value() == Some(*v), "OB: folded NOT differs from the VM result (64-bit)"),
                  Some(_) => assert!(false, "OB: folding a Uint operand yields a non-Uint constant") }
    }
    #[kani::proof]
    fn un_not_narrow() {
        let x: u64 = kani::any();
        let w = any_width();
        kani::assume(w != Some(64));
        let f = MD::new(fold_unary(&UnaryOpKind::Not, Konst(&cc(x, w)), &Context));
        kani::cover!(f.is_some());
        match &*f { None => {}, Some(ConstantValue::Uint(v)) => assert!(vm_alu::not(x, any_flag()).value() == Some(*v), "OB: folded NOT differs from the VM result (width < 64)"),
                  Some(_) => assert!(false, "OB: folding a Uint operand yields a non-Uint constant") }
    }
    #[kani::proof]
    fn cmp_uint() {
        let (l, r): (u64, u64) = (kani::any(), kani::any());
        let w = any_width();
        let (a, b) = (cc(l, w), cc(r, w));
        let p = match kani::any::<u8>() % 3 { 0 => Predicate::Equal, 1 => Predicate::LessThan, _ => Predicate::GreaterThan };
        let f = fold_cmp(&p, Konst(&a), Konst(&b), &Context);
        let flag = any_flag();
        let o = match p { Predicate::Equal => vm_alu::eq(l, r, flag), Predicate::LessThan => vm_alu::lt(l, r, flag), Predicate::GreaterThan => vm_alu::gt(l, r, flag) };
        kani::cover!(matches!(f, Some((_, _, true))));
        kani::cover!(matches!(f, Some((_, _, false))));
        if let Some((_, _, c)) = f { assert!(o.value() == Some(c as u64), "OB: folded comparison differs from the VM result"); }
    }
    // remove_useless_binary_op: replacing `op arg1 arg2` by arg_k must be an identity of the VM instruction, panics included
    fn useless_check(op: BinaryOpKind) {
        let (x1, x2): (u64, u64) = (kani::any(), kani::any());   // run-time values of arg1, arg2
        let (k1, k2): (bool, bool) = (kani::any(), kani::any());   // which of them is a compile-time constant
        kani::assume(k1 || k2);                                     // call-site guard of the real code
        let (c1, c2) = (MD::new(ConstantValue::Uint(x1)), MD::new(ConstantValue::Uint(x2)));
        let r = useless(&op, if k1 { Some(&c1) } else { None }, if k2 { Some(&c2) } else { None }, &Value(1), &Value(2));
        let flag = any_flag();
        kani::cover!(k1 && !k2);
        if let Some((_, _, Value(k))) = r {
            let o = vm_binary(&op, x1, x2, flag);
            assert!(k == 1 || k == 2, "OB: replacement is one of the two operands");
            assert!(o != Out::Panic, "OB: instruction removed although it panics at run time");
            assert!(o.value() == Some(if k == 1 { x1 } else { x2 }), "OB: instruction replaced by an operand it does not equal");
        }
    }
    #[kani::proof]
    fn cbr_destination() {
        let b: bool = kani::any();
        let c = MD::new(ConstantContent { ty: Type { width: None }, value: ConstantValue::Bool(b) });
        let (t, f) = (BranchToWithArgs { block: 1 }, BranchToWithArgs { block: 2 });
        let r = cbr(&CondValue(&c), &t, &f, &Context);
        kani::cover!(b);
        kani::cover!(!b);
        match r { Some(Ok((_, _, dest, gone))) => { assert!(dest == (if b { t.clone() } else { f.clone() }), "OB: constant branch keeps the wrong destination");
                                                     assert!(gone == (if b { f } else { t }), "OB: constant branch drops the wrong destination"); }
                  Some(Err(_)) => assert!(false, "OB: folding a branch on a Bool constant reports an IR error"),
                  None => {} /* not folded: the conditional branch stays, behaviour is unchanged */ }
    }
}
'''

import os
import re as _re
import subprocess

M64 = (1 << 64) - 1


def vm_py(op, l, r):
    """FuelVM outcome under default flags (python twin of spec/vm_alu.rs): None = panic"""
    if op == "add":
        return l + r if l + r <= M64 else None
    if op == "sub":
        return l - r if l >= r else None
    if op == "mul":
        return l * r if l * r <= M64 else None
    if op == "div":
        return l // r if r else None
    if op == "mod":
        return l % r if r else None
    if op == "and":
        return l & r
    if op == "or":
        return l | r
    if op == "xor":
        return l ^ r
    if op == "lsh":
        return (l << r) & M64 if r < 64 else 0
    if op == "rsh":
        return l >> r if r < 64 else 0
    if op == "eq":
        return int(l == r)
    if op == "lt":
        return int(l < r)
    if op == "gt":
        return int(l > r)
    raise KeyError(op)


def run_real_const_folding(ir_text):
    """run the REAL const-folding pass: sway-ir's own `opt` binary built from the current /repo tree"""
    env = dict(os.environ, CARGO_NET_OFFLINE="true")
    b = subprocess.run(["cargo", "build", "-p", "sway-ir", "--bin", "opt", "--offline", "-j", "8"], cwd=vf.REPO, capture_output=True, text=True, env=env, timeout=3000)
    if b.returncode != 0:
        return None, "could not build sway-ir opt: " + b.stderr[-500:]
    os.makedirs(vf.BUILD, exist_ok=True)
    f = os.path.join(vf.BUILD, "replay-%d.ir" % os.getpid())
    open(f, "w").write(ir_text)
    r = subprocess.run([os.path.join(vf.REPO, "target/debug/opt"), "const-folding", "-i", f], capture_output=True, text=True, timeout=120)
    return r.stdout, r.stderr[-500:]


def replay_fold(ob, cex):
    """replay a counterexample of a bin_*/useless_*/cmp obligation on the real sway-ir"""
    vals = [c["le"] for c in cex]
    m = _re.match(r"(bin|useless)_([a-z]+)", ob.name)
    if m:
        op = m.group(2)
        l, r = vals[0], vals[1]
        body = "l = const u64 %d\n        r = const u64 %d\n        res = %s l, r\n        ret u64 res" % (l, r, op)
        ty = "u64"
    elif ob.name == "cmp_uint":
        l, r = vals[0], vals[1]
        outs = {}
        for pred in ("eq", "lt", "gt"):
            ir = "script {\n    entry fn main() -> bool {\n        entry():\n        l = const u64 %d\n        r = const u64 %d\n        res = cmp %s l r\n        ret bool res\n    }\n}\n" % (l, r, pred)
            out, err = run_real_const_folding(ir)
            mm = _re.search(r"const bool (true|false)", out or "")
            outs[pred] = {"folded_to": mm.group(1) if mm else None, "fuelvm": bool(vm_py(pred, l, r))}
        bad = [p for p, o in outs.items() if o["folded_to"] is not None and (o["folded_to"] == "true") != o["fuelvm"]]
        return {"driver": "sway-ir opt const-folding (real pass)", "operands": [l, r], "per_predicate": outs, "confirms": bool(bad), "mismatching_predicates": bad}
    else:
        return {"note": "no real-code driver for this obligation"}
    ir = "script {\n    entry fn main() -> %s {\n        entry():\n        %s\n    }\n}\n" % (ty, body)
    out, err = run_real_const_folding(ir)
    if out is None:
        return {"error": err}
    still = _re.search(r"= %s " % op, out) is not None
    mm = _re.search(r"const u64 (\d+)\s*\n\s*ret u64", out)
    folded = None if still else (int(mm.group(1)) if mm else "?")
    vm = vm_py(op, l, r)
    confirms = (folded is not None) and (vm is None or folded != vm)
    return {"driver": "sway-ir opt const-folding (real pass)", "ir": ir, "real_output": out[-600:], "folded_to": folded,
            "fuelvm_result": "panic (revert)" if vm is None else vm, "confirms": confirms,
            "note": "for useless_* obligations the operands are run-time values; the replay shows the fold of the all-constant instance" if ob.name.startswith("useless") else ""}


OPS = ["Add", "Sub", "Mul", "Div", "And", "Or", "Xor", "Mod", "Rsh", "Lsh"]
Z3 = {"Mul", "Div", "Mod"}


def build(tier, prop_functional="C06"):
    fr = vf.extract(SPECS)
    src = ENV
    for k in ("ConstantValue", "ConstantContent", "BinaryOpKind", "UnaryOpKind", "Predicate", "bin", "un", "cmp", "useless", "cbr", "lower"):
        src = src.replace("@%s@" % k, fr[k]["text"])
    hs = []
    obs = []
    for op in OPS:
        z = "#[kani::solver(z3)] " if op in Z3 else ""
        hs.append("#[kani::proof] %sfn bin_%s_sound() { sound(BinaryOpKind::%s) }" % (z, op.lower(), op))
        hs.append("#[kani::proof] %sfn bin_%s_complete() { complete(BinaryOpKind::%s) }" % (z, op.lower(), op))
        obs.append(vf.Ob("bin_%s_sound" % op.lower(), "C06", panic_prop="C17", inputs=["l", "r"], replay=replay_fold,
                         what="combine_binary_op (%s, Uint, Uint): Some(v) ==> VM yields v, no panic; all u64 x u64, all $flag" % op))
        obs.append(vf.Ob("bin_%s_complete" % op.lower(), "C06", panic_prop="C17", info_only=True,
                         what="coverage: (%s, Uint, Uint) folds whenever the VM result is defined" % op))
        hs.append("#[kani::proof] fn useless_%s() { useless_check(BinaryOpKind::%s) }" % (op.lower(), op))  # SAT back end: CBMC's SMT2 conversion crashes (map::at) on the Option<&_> arguments
        obs.append(vf.Ob("useless_%s" % op.lower(), "C03", panic_prop="C17",
                         what="remove_useless_binary_op on %s: a rule that fires is an identity of the VM instruction incl. panics; all u64 operands, either side constant" % op))
    src = src.replace("@BIN_HARNESSES@", "\n    ".join(hs))
    obs += [
        vf.Ob("un_not_w64", "C06", panic_prop="C17", what="combine_unary_op (Not, Uint) on u64: folded value == VM NOT"),
        vf.Ob("un_not_narrow", "C06", panic_prop="C17", known="D3", what="combine_unary_op (Not, Uint) on widths != 64: folded value == VM NOT"),
        vf.Ob("cmp_uint", "C06", panic_prop="C17", inputs=["l", "r"], replay=replay_fold, what="combine_cmp on Uint: Equal/LessThan/GreaterThan == VM EQ/LT/GT"),
        vf.Ob("cbr_destination", "C03", panic_prop="C17", what="combine_cbr: constant condition keeps true_block iff the constant is true"),
    ]
    u = vf.KaniUnit("irfold_u64", {"src/lib.rs": src, "src/vm_alu.rs": open(vf.ROOT + "/spec/vm_alu.rs").read()}, obs, timeout_s=120, jobs=12,
                    auto_files=[F])
    u.fragments = [vf.frag_record(fr[k]) for k in ("bin", "un", "cmp", "useless", "cbr", "lower", "ConstantValue", "ConstantContent", "BinaryOpKind", "UnaryOpKind", "Predicate")]
    u.rewrites = [{"rule": "R0", "before": "match expressions copied verbatim into wrapper fns", "after": "", "times": 6},
                  {"rule": "R1", "before": "derives of ConstantValue/ConstantContent/BinaryOpKind/UnaryOpKind/Predicate", "after": "plain derives", "times": 5}]
    u.assumptions = [
        "sway_ir::Type shimmed to its integer width; Context/Constant/Value/Block handles shimmed (arena plumbing not under contract)",
        "sway_types::U256 stubbed in this unit (256-bit arms are verified in the Verus unit)",
        "Constant == Constant (uniqued handles) modelled as equality of type and value",
        "FuelVM ALU oracle spec/vm_alu.rs (transcription of fuel-vm 0.66.4)",
        "IR binary ops on narrow integer types are lowered to the same 64-bit instruction (read off compile_binary_op's table, which is extracted)",
    ]
    return [u]


# ======================================================================================================
# const_eval_intrinsic: the u64 arms (C06 U6.4), verbatim inner matches of sway-core/src/ir_generation/const_eval.rs
# ======================================================================================================
CE = "sway-core/src/ir_generation/const_eval.rs"
CE_HOST = {"kind": "fn", "name": "const_eval_intrinsic"}


def _ce(scrutinee, nth):
    return {"kind": "in_fn", "fn": CE_HOST, "what": "match", "scrutinee": scrutinee, "nth": nth}


CE_SPECS = [
    {"id": "arith", "file": CE, "locator": dict(_ce("intrinsic.kind", 0), arm0="Intrinsic::Add")},
    {"id": "arith_res", "file": CE, "locator": _ce("result", 0)},
    {"id": "bitw", "file": CE, "locator": dict(_ce("intrinsic.kind", 0), arm0="Intrinsic::And")},
    {"id": "bitw_res", "file": CE, "locator": _ce("result", 2)},
    {"id": "shift", "file": CE, "locator": dict(_ce("intrinsic.kind", 0), arm0="Intrinsic::Lsh")},
    {"id": "shift_res", "file": CE, "locator": _ce("result", 5)},
    {"id": "notw", "file": CE, "locator": {"kind": "in_fn", "fn": CE_HOST, "what": "match",
                                            "scrutinee": "arg.get_content(lookup.context).ty.get_uint_width(lookup.context)"}},
    {"id": "ce_gt", "file": CE, "locator": {"kind": "in_fn", "fn": CE_HOST, "what": "match", "nth": 0,
                                             "scrutinee": "(&args[0].get_content(lookup.context).value, &args[1].get_content(lookup.context).value,)", "arm0": "(ConstantValue::Uint(val1), ConstantValue::Uint(val2))"}},
    {"id": "ce_lt", "file": CE, "locator": {"kind": "in_fn", "fn": CE_HOST, "what": "match", "nth": 1,
                                             "scrutinee": "(&args[0].get_content(lookup.context).value, &args[1].get_content(lookup.context).value,)", "arm0": "(ConstantValue::Uint(val1), ConstantValue::Uint(val2))"}},
    {"id": "Intrinsic", "file": "sway-ast/src/intrinsics.rs", "locator": {"kind": "item", "item": "enum", "name": "Intrinsic", "attrs": "strip"}},
    {"id": "i2b", "file": "sway-core/src/ir_generation/function.rs",
     "locator": {"kind": "in_fn", "fn": {"kind": "impl_fn", "self_ty": "FnCompiler<'a>", "name": "compile_intrinsic_function"}, "what": "match", "scrutinee": "kind", "arm0": "Intrinsic::Add"}},
    {"id": "BinaryOpKind", "file": "sway-ir/src/instruction.rs", "locator": {"kind": "item", "item": "enum", "name": "BinaryOpKind", "attrs": "strip"}},
    {"id": "lower", "file": "sway-core/src/asm_generation/fuel/fuel_asm_builder.rs",
     "locator": {"kind": "in_fn", "fn": {"kind": "impl_fn", "self_ty": "FuelAsmBuilder<'ir, 'eng>", "name": "compile_binary_op"}, "what": "match", "scrutinee": "op", "nth": 0}},
]

CE_ENV = r'''
#![allow(unused, dead_code, unused_parens, unreachable_patterns, unreachable_code, non_snake_case, clippy::all)]
include!("vm_alu.rs");
use std::ops::{BitAnd, BitOr, BitXor, Not};
use vm_alu::Out;
// ---------------- environment (shims) ----------------
#[derive(Clone, Debug, PartialEq)] pub struct Span;
#[derive(Clone, Copy, Debug, PartialEq)] pub struct Type { pub width: Option<u16> }
pub struct Ctx;
impl Type { pub fn get_uint_width(&self, _c: &Ctx) -> Option<u16> { self.width } }
pub struct Lookup<'a> { pub context: &'a Ctx }
#[derive(Debug)] pub enum ConstEvalError { CannotBeEvaluatedToConst { span: Span } }
#[derive(Debug, Clone, PartialEq, PartialOrd)] pub struct U256(());
#[derive(Debug, Clone, PartialEq)] pub enum ConstantValue { Uint(u64), Bool(bool), U256(U256) }
impl Type { pub fn get_bool(_c: &Ctx) -> Type { Type { width: None } } }
/// shim of the uniqued Constant handle: keeps the content
#[derive(Debug, Clone, PartialEq)] pub struct Constant(pub ConstantContent);
impl Constant { pub fn unique(_c: &Ctx, c: ConstantContent) -> Constant { Constant(c) } }
#[derive(Debug, Clone, PartialEq)] pub struct ConstantContent { pub ty: Type, pub value: ConstantValue }
pub struct Intr { pub kind: Intrinsic, pub span: Span }
pub struct Arg { pub c: ConstantContent }
impl Arg { pub fn get_content(&self, _c: &Ctx) -> &ConstantContent { &self.c } }
// ---------------- extracted verbatim ----------------
#[derive(Debug, Clone, Copy, PartialEq, Eq)]
@Intrinsic@
#[derive(Debug, Clone, Copy, PartialEq, Eq)]
@BinaryOpKind@
// const_eval_intrinsic, (Uint, Uint) arm of Add|Sub|Mul|Div|Mod: `let result = match intrinsic.kind {..}; match result {..}`
pub fn ce_arith(intrinsic: &Intr, arg1: &u64, arg2: &u64, ty: Type) -> Result<Option<ConstantContent>, ConstEvalError> {
    let result = @arith@;
    @arith_res@
}
pub fn ce_bitw(intrinsic: &Intr, arg1: &u64, arg2: &u64, ty: Type) -> Result<Option<ConstantContent>, ConstEvalError> {
    let result = @bitw@;
    @bitw_res@
}
pub fn ce_shift(intrinsic: &Intr, arg1: &u64, arg2: &u64, ty: Type) -> Result<Option<ConstantContent>, ConstEvalError> {
    let result = @shift@;
    @shift_res@
}
// Not arm on Uint: `let n = match arg.get_content(..).ty.get_uint_width(..) {..};`
pub fn ce_not(arg: &Arg, n: &u64, lookup: &Lookup) -> u64 {
    let n = @notw@;
    n
}
// Intrinsic::Gt / Intrinsic::Lt arms: `match (&args[0]..value, &args[1]..value) {..}` -- verbatim
pub fn ce_gt(args: &[Arg; 2], lookup: &Lookup) -> Result<Option<Constant>, ConstEvalError> { @ce_gt@ }
pub fn ce_lt(args: &[Arg; 2], lookup: &Lookup) -> Result<Option<Constant>, ConstEvalError> { @ce_lt@ }
// compile_intrinsic_function: Intrinsic -> BinaryOpKind table; compile_binary_op: BinaryOpKind -> VirtualOp table
pub fn i2b(kind: Intrinsic) -> BinaryOpKind { @i2b@ }
#[derive(Clone, Copy, PartialEq, Debug)]
pub enum VirtualOp { ADD((),(),()), SUB((),(),()), MUL((),(),()), DIV((),(),()), AND((),(),()), OR((),(),()), XOR((),(),()), MOD((),(),()), SRL((),(),()), SLL((),(),()) }
pub enum Either<L, R> { Left(L), Right(R) }
pub fn lower(op: &BinaryOpKind) -> Either<VirtualOp, ()> { let res_reg = (); let val1_reg = (); let val2_reg = (); @lower@ }
pub fn vm_intrinsic(kind: Intrinsic, l: u64, r: u64, flag: u64) -> Out {
    match lower(&i2b(kind)) {
        Either::Left(VirtualOp::ADD(..)) => vm_alu::add(l, r, flag), Either::Left(VirtualOp::SUB(..)) => vm_alu::sub(l, r, flag),
        Either::Left(VirtualOp::MUL(..)) => vm_alu::mul(l, r, flag), Either::Left(VirtualOp::DIV(..)) => vm_alu::div(l, r, flag),
        Either::Left(VirtualOp::AND(..)) => vm_alu::and(l, r, flag), Either::Left(VirtualOp::OR(..)) => vm_alu::or(l, r, flag),
        Either::Left(VirtualOp::XOR(..)) => vm_alu::xor(l, r, flag), Either::Left(VirtualOp::MOD(..)) => vm_alu::modulo(l, r, flag),
        Either::Left(VirtualOp::SRL(..)) => vm_alu::srl(l, r, flag), Either::Left(VirtualOp::SLL(..)) => vm_alu::sll(l, r, flag),
        _ => unreachable!(),
    }
}
#[cfg(kani)]
mod h {
    use super::*;
    fn any_flag() -> u64 { let f: u64 = kani::any(); kani::assume(f < 4); f }
    fn post(kind: Intrinsic, l: u64, r: u64, res: Result<Option<ConstantContent>, ConstEvalError>) {
        kani::cover!(res.is_ok());
        match res {
            Err(_) | Ok(None) => {}
            Ok(Some(c)) => match c.value {
                ConstantValue::Uint(v) => {
                    let o = vm_intrinsic(kind, l, r, any_flag());
                    assert!(o != Out::Panic, "OB: const-evaluated although the VM instruction panics (reverts)");
                    assert!(o.value() == Some(v), "OB: const-evaluated value differs from the VM result");
                }
                _ => assert!(false, "OB: Uint operands evaluate to a non-Uint constant"),
            },
        }
    }
    fn w() -> Type { Type { width: if kani::any() { Some(kani::any()) } else { None } } }
    @CE_HARNESSES@
    #[kani::proof]
    fn ce_cmp() {
        let (l, r): (u64, u64) = (kani::any(), kani::any());
        let t = w();
        let args = [Arg { c: ConstantContent { ty: t, value: ConstantValue::Uint(l) } }, Arg { c: ConstantContent { ty: t, value: ConstantValue::Uint(r) } }];
        let lk = Lookup { context: &Ctx };
        let flag = any_flag();
        match ce_gt(&args, &lk) { Ok(Some(Constant(c))) => assert!(c.value == ConstantValue::Bool(vm_alu::gt(l, r, flag).value() == Some(1)), "OB: const-evaluated __gt differs from the VM GT"),
                                  _ => assert!(false, "OB: __gt on two Uint constants must evaluate") }
        match ce_lt(&args, &lk) { Ok(Some(Constant(c))) => assert!(c.value == ConstantValue::Bool(vm_alu::lt(l, r, flag).value() == Some(1)), "OB: const-evaluated __lt differs from the VM LT"),
                                  _ => assert!(false, "OB: __lt on two Uint constants must evaluate") }
    }
    #[kani::proof]
    fn ce_not_w64() {
        let x: u64 = kani::any();
        let a = Arg { c: ConstantContent { ty: Type { width: Some(64) }, value: ConstantValue::Uint(x) } };
        let v = ce_not(&a, &x, &Lookup { context: &Ctx });
        assert!(vm_alu::not(x, any_flag()).value() == Some(v), "OB: const-evaluated NOT differs from the VM result (64-bit)");
    }
    #[kani::proof]
    fn ce_not_narrow() {
        let x: u64 = kani::any();
        let wd: u16 = kani::any();
        kani::assume(wd == 8 || wd == 16 || wd == 32);   // other widths are unreachable!() in the code: excluded by the call-site precondition
        let a = Arg { c: ConstantContent { ty: Type { width: Some(wd) }, value: ConstantValue::Uint(x) } };
        let v = ce_not(&a, &x, &Lookup { context: &Ctx });
        assert!(vm_alu::not(x, any_flag()).value() == Some(v), "OB: const-evaluated NOT differs from the VM result (width < 64)");
    }
}
'''


def build_ceval(tier):
    fr = vf.extract(CE_SPECS)
    for k, tok in (("arith", "checked_add(*arg2)"), ("bitw", "bitand(arg2)"), ("shift", "checked_shl(arg2)"), ("arith_res", "ConstantValue::Uint(result)"),
                   ("bitw_res", "ConstantValue::Uint(sum)"), ("shift_res", "ConstantValue::Uint(sum)"), ("i2b", "BinaryOpKind::Add")):
        if tok not in fr[k]["text"]:
            raise vf.Undecided("const_eval_intrinsic: fragment %s is not the expected (Uint, Uint) match (token %r missing)" % (k, tok))
    src = CE_ENV
    for k in fr:
        src = src.replace("@%s@" % k, fr[k]["text"])
    hs, obs = [], []
    groups = [("arith", "ce_arith", ["Add", "Sub", "Mul", "Div", "Mod"]), ("bitw", "ce_bitw", ["And", "Or", "Xor"]), ("shift", "ce_shift", ["Lsh", "Rsh"])]
    for _, fn, kinds in groups:
        for k in kinds:
            z = "#[kani::solver(z3)] " if k in ("Mul", "Div", "Mod") else ""
            hs.append("#[kani::proof] %sfn ce_%s() { let (l, r): (u64, u64) = (kani::any(), kani::any()); let i = Intr { kind: Intrinsic::%s, span: Span }; post(i.kind, l, r, %s(&i, &l, &r, w())); }" % (z, k.lower(), k, fn))
            obs.append(vf.Ob("ce_%s" % k.lower(), "C06", panic_prop="C17",
                             what="const_eval_intrinsic (%s, Uint, Uint): Ok(Some(v)) ==> the VM instruction selected by the real lowering tables yields v, no panic; all u64 x u64, all $flag" % k))
    src = src.replace("@CE_HARNESSES@", "\n    ".join(hs))
    obs += [vf.Ob("ce_cmp", "C06", panic_prop="C17", what="const_eval_intrinsic Gt / Lt on Uint: value == VM GT / LT for all u64 x u64"),
            vf.Ob("ce_not_w64", "C06", panic_prop="C17", what="const_eval_intrinsic Not on u64: value == VM NOT"),
            vf.Ob("ce_not_narrow", "C06", panic_prop="C17", known="D3", what="const_eval_intrinsic Not on u8/u16/u32: value == VM NOT")]
    u = vf.KaniUnit("ceval_u64", {"src/lib.rs": src, "src/vm_alu.rs": open(vf.ROOT + "/spec/vm_alu.rs").read()}, obs, timeout_s=120, jobs=12, auto_files=[CE])
    u.fragments = [vf.frag_record(fr[k]) for k in fr]
    u.rewrites = [{"rule": "R0", "before": "inner matches of const_eval_intrinsic copied verbatim into wrapper fns", "after": "", "times": 7}]
    u.assumptions = ["Type shimmed to its integer width; ConstantContent/ConstantValue reduced to the Uint/Bool variants; Intr = (kind, span)",
                     "operands of one intrinsic have the same type (asserted by the real code before the match)",
                     "intrinsic kinds outside each group are unreachable!() and excluded by the call-site precondition (outer match arm)",
                     "FuelVM ALU oracle spec/vm_alu.rs"]
    return [u]
