#!/usr/bin/env python3
"""./check <PROPERTY> [--tier quick|thorough] [--update-ledger] [--only unit[,unit]] [--replay file]

exit 0  every obligation of the property discharged (known findings are printed as KNOWN-FINDING lines)
exit 1  an obligation failed with a verifier verdict -> `VIOLATION property=<id> replay=<path>`
exit 2  undecided (lost anchor, unsupported construct, solver limit, vacuity, missing obligation) - never an alarm
"""
import importlib
import json
import os
import re
import sys
import time
from concurrent.futures import ThreadPoolExecutor

sys.path.insert(0, os.path.dirname(os.path.abspath(__file__)))
sys.path.insert(0, os.path.dirname(os.path.dirname(os.path.abspath(__file__))))
import vf  # noqa: E402


def log(msg):
    print(msg, flush=True)


def load_known():
    out = []
    p = os.path.join(vf.ROOT, "known_findings.jsonl")
    if os.path.exists(p):
        for line in open(p):
            line = line.strip()
            if line and not line.startswith("#"):
                out.append(json.loads(line))
    return out


def relevant_failures(ob, prop):
    """failed checks of `ob` that are booked under `prop`"""
    out = []
    for fc in ob.failed_checks:
        functional = vf.is_functional(fc["desc"])
        target = ob.prop if functional else (ob.panic_prop or ob.prop)
        if target == prop:
            out.append(fc)
    return out


def main(argv):
    if len(argv) < 2:
        print(__doc__)
        return 64
    prop = argv[1]
    tier = os.environ.get("VERIF_TIER", "quick")
    update_ledger = False
    only = None
    ob_filter = None
    i = 2
    while i < len(argv):
        if argv[i] == "--tier":
            tier = argv[i + 1]
            i += 2
        elif argv[i] == "--update-ledger":
            update_ledger = True
            i += 1
        elif argv[i] == "--ledger-only":
            mod = importlib.import_module("props." + prop)
            units = mod.build(tier)
            present = sorted("%s/%s" % (u.name, ob.name) for u in units for ob in u.obligations)
            lp = os.path.join(vf.ROOT, "ledger", "%s.%s.json" % (prop, tier))
            os.makedirs(os.path.dirname(lp), exist_ok=True)
            json.dump({"property": prop, "tier": tier, "obligations": present}, open(lp, "w"), indent=1)
            print("ledger written (not run): %d obligations" % len(present))
            return 0
        elif argv[i] == "--only":
            only = set(argv[i + 1].split(","))
            i += 2
        elif argv[i] == "--ob":
            ob_filter = set(argv[i + 1].split(","))
            i += 2
        elif argv[i] == "--replay":
            return replay_file(argv[i + 1])
        else:
            print("unknown argument", argv[i])
            return 64
    seed = int(os.environ.get("VERIF_SEED", "0") or 0)
    t0 = time.time()
    # a filtered run (--only / --ob) is a development aid: its partial evidence must not replace the property's evidence file
    ev_path = os.path.join(vf.ROOT, "evidence", prop + ".json") if not (only or ob_filter) else os.path.join(vf.BUILD, "evidence_partial", prop + ".json")
    os.makedirs(os.path.dirname(ev_path), exist_ok=True)
    mod = importlib.import_module("props." + prop)
    log("== %s (%s tier) against %s" % (prop, tier, vf.REPO))
    undecided_reasons = []
    try:
        units = mod.build(tier)
    except vf.Undecided as e:
        log("UNDECIDED property=%s building units: %s" % (prop, e))
        write_evidence(ev_path, prop, tier, seed, mod, [], [], [], ["unit construction failed: %s" % e], t0, 0)
        return 2
    if only:
        units = [u for u in units if u.name in only]
    if ob_filter:
        for u in units:
            u.obligations = [o for o in u.obligations if o.name in ob_filter]
        units = [u for u in units if u.obligations]
        only = only or {"(obligation filter)"}
    heavy = [u for u in units if getattr(u, "heavy", False)]
    light = [u for u in units if not getattr(u, "heavy", False)]

    def run_unit(u):
        try:
            u.run(log)
        except Exception as e:  # tool crash: undecided, never alarm
            for ob in u.obligations:
                ob.result, ob.detail = "undecided", "runner exception: %r" % e
        return u

    with ThreadPoolExecutor(max_workers=int(os.environ.get("VERIF_UNIT_PAR", "4"))) as ex:
        list(ex.map(run_unit, light))
    with ThreadPoolExecutor(max_workers=int(os.environ.get("VERIF_HEAVY_PAR", "2"))) as ex:
        list(ex.map(run_unit, heavy))

    known = [k for k in load_known() if k.get("status", "open") == "open"]
    violations, known_hits, infos = [], [], []
    obs = [(u, ob) for u in units for ob in u.obligations]
    for u, ob in obs:
        if ob.result == "undecided":
            undecided_reasons.append("%s/%s: %s" % (u.name, ob.name, ob.detail[:400]))
            continue
        if ob.result != "failed":
            continue
        rel = relevant_failures(ob, prop)
        if not rel:
            other = sorted({(ob.prop if vf.is_functional(f["desc"]) else (ob.panic_prop or ob.prop)) for f in ob.failed_checks})
            log("NOTE %s/%s fails, booked under %s (run that property's check): %s" % (u.name, ob.name, ",".join(other), ob.detail[:200]))
            continue
        if ob.info_only:
            infos.append((u, ob))
            log("INFO (non-alarming obligation) %s/%s: %s" % (u.name, ob.name, ob.detail[:300]))
            continue
        unexplained = []
        for fc in rel:
            k = next((k for k in known if k["property"] == prop and k["unit"] == u.name and k["obligation"] == ob.name
                      and re.search(k.get("check_re", "."), fc["desc"] + " @ " + fc["where"])), None)
            if k:
                if (k["id"], u.name, ob.name) not in [(a["id"], b, c) for a, b, c in known_hits]:
                    known_hits.append((k, u.name, ob.name))
            else:
                unexplained.append(fc)
        if unexplained:
            violations.append((u, ob, unexplained))

    for k, un, on in known_hits:
        log("KNOWN-FINDING: property=%s %s [%s/%s] %s" % (prop, k["id"], un, on, k["what"]))

    # ledger: obligations that are discharged on the unchanged tree must all be present
    ledger_path = os.path.join(vf.ROOT, "ledger", "%s.%s.json" % (prop, tier))
    present = sorted("%s/%s" % (u.name, ob.name) for u, ob in obs)
    if update_ledger:
        os.makedirs(os.path.dirname(ledger_path), exist_ok=True)
        with open(ledger_path, "w") as f:
            json.dump({"property": prop, "tier": tier, "obligations": present}, f, indent=1)
        log("ledger written: %d obligations" % len(present))
    elif not only:
        if os.path.exists(ledger_path):
            want = json.load(open(ledger_path))["obligations"]
            missing = sorted(set(want) - set(present))
            if missing:
                undecided_reasons.append("obligations in the ledger but not generated: %s" % missing[:10])
        else:
            undecided_reasons.append("no ledger for %s/%s" % (prop, tier))

    rc = 0
    replay_paths = []
    for u, ob, fcs in violations:
        rp = write_replay(prop, u, ob, fcs)
        replay_paths.append(rp)
        rr = json.load(open(rp)).get("real_code_replay") or {}
        if rr.get("confirms") is False:
            # the real code gives the contract's answer on the verifier's input: my environment is wrong, not the repository
            undecided_reasons.append("%s/%s: counterexample NOT reproduced on the real code (see %s) -- environment/shim suspect" % (u.name, ob.name, rp))
            log("UNDECIDED property=%s %s/%s: the verifier's counterexample does not reproduce on the real code; see %s" % (prop, u.name, ob.name, rp))
            continue
        suffix = "" if ob.cex else " no-failing-input-found"
        log("VIOLATION property=%s replay=%s%s" % (prop, rp, suffix))
        log("  obligation %s/%s (%s): %s" % (u.name, ob.name, ob.what, "; ".join(f["desc"] for f in fcs)[:500]))
        rc = 1
    if rc == 0 and undecided_reasons:
        for r in undecided_reasons[:20]:
            log("UNDECIDED property=%s %s" % (prop, r))
        rc = 2
    write_evidence(ev_path, prop, tier, seed, mod, units, known_hits, infos, undecided_reasons, t0, len(violations))
    log("== %s: %s  (%.0fs)" % (prop, {0: "HOLDS on everything explored", 1: "VIOLATION", 2: "UNDECIDED"}[rc], time.time() - t0))
    return rc


def write_replay(prop, u, ob, fcs):
    d = os.path.join(vf.ROOT, "replays")
    os.makedirs(d, exist_ok=True)
    rp = os.path.join(d, "%s-%s-%s.json" % (prop, u.name, ob.name))
    rec = {
        "property": prop, "unit": u.name, "engine": u.engine, "obligation": ob.name, "what": ob.what,
        "complete": ob.complete, "bound": ob.bound,
        "failed_checks": fcs, "verifier_output": ob.detail,
        "fragments": u.fragments, "counterexample": ob.cex,
        "verifier_cmd": getattr(u, "cmd", ""),
    }
    if ob.cex and ob.replay:
        try:
            rec["real_code_replay"] = ob.replay(ob, ob.cex)
        except Exception as e:
            rec["real_code_replay"] = {"error": repr(e)}
    elif not ob.cex:
        rec["note"] = "no-failing-input-found: the verifier gave no concrete input; the failed obligation and the verifier output are above"
    with open(rp, "w") as f:
        json.dump(rec, f, indent=1)
    return rp


def replay_file(path):
    rec = json.load(open(path))
    print(json.dumps({k: rec.get(k) for k in ("property", "unit", "obligation", "what", "failed_checks", "counterexample", "real_code_replay")}, indent=1))
    return 0


def write_evidence(path, prop, tier, seed, mod, units, known_hits, infos, undecided, t0, nviol):
    obs = [(u, ob) for u in units for ob in u.obligations]
    mine = [(u, ob) for u, ob in obs if ob.prop == prop or (ob.panic_prop or ob.prop) == prop]
    def ok(u, ob):
        return ob.result == "discharged" or (ob.result == "failed" and not relevant_failures(ob, prop))
    kh = {(un, on) for _, un, on in known_hits}
    counted = [(u, ob) for u, ob in mine if ob.complete and not ob.info_only and not ob.expect_fail and (u.name, ob.name) not in kh]
    bounded = [(u, ob) for u, ob in mine if not ob.complete and not ob.info_only and not ob.expect_fail and (u.name, ob.name) not in kh]
    twins = [(u, ob) for u, ob in mine if ob.expect_fail]
    level = getattr(mod, "LEVEL", "proof")
    if not counted:
        level = "other"
    def rec(u, ob):
        return {"unit": u.name, "obligation": ob.name, "engine": ob.engine, "what": ob.what, "result": ob.result if not ok(u, ob) else "discharged",
                "seconds": round(ob.seconds, 2), "cbmc_checks": ob.checks, **({"bound": ob.bound} if not ob.complete else {})}
    assumptions = list(getattr(mod, "ASSUMPTIONS", []))
    scan = {}
    for u in units:
        assumptions += ["[%s] %s" % (u.name, a) for a in u.assumptions]
        txt = u.text if u.engine == "verus" else "\n".join(u.files.values())
        for k, v in vf.scan_assumptions(txt).items():
            scan["%s:%s" % (u.name, k)] = v
    cov = {
        "obligations": len(counted),
        "discharged": sum(1 for u, ob in counted if ok(u, ob)),
        "checker_cmd": "; ".join(sorted({re.sub(r"--harness \S+ ?", "", getattr(u, "cmd", u.engine)).strip() for u in units}))[:2000],
        "trusted_base": getattr(mod, "TRUSTED", []),
        "explanation": getattr(mod, "EXPLANATION", ""),
        "bounded_obligations": [rec(u, ob) for u, ob in bounded],
        "bounded_total": len(bounded),
        "bounded_discharged": sum(1 for u, ob in bounded if ok(u, ob)),
        "complete_obligations": [rec(u, ob) for u, ob in counted],
        "vacuity_twins": [rec(u, ob) for u, ob in twins],
        "known_findings_hit": [{"id": k["id"], "unit": un, "obligation": on, "what": k["what"]} for k, un, on in known_hits],
        "informational_failures": [rec(u, ob) for u, ob in infos],
        "undecided": undecided[:50],
        "cbmc_checks_total": sum(ob.checks for u, ob in mine),
        "solver_seconds": round(sum(ob.seconds for u, ob in mine), 1),
        "units": [{"name": u.name, "engine": u.engine, "wall_s": round(getattr(u, "wall", 0), 1), "fragments": u.fragments,
                   "rewrites": u.rewrites, "cmd": getattr(u, "cmd", "")} for u in units],
        "functions_under_contract": sorted({"%s:%s-%s" % (f["file"], f["first_line"], f["last_line"]) for u in units for f in u.fragments}),
        "assumption_scan": scan,
        "samples": [rec(u, ob) for u, ob in (counted + bounded)[:6]],
        "tool_versions": {"verus": "0.2026.09.13", "kani": "0.68.0", "cbmc": "6.11.0"},
    }
    if level == "other" and not cov["explanation"]:
        cov["explanation"] = "all obligations of this property are bounded stand-ins; bounds are listed per obligation"
    ev = {"property_id": prop, "tier": tier if tier in ("quick", "thorough") else "quick", "seed": seed, "level": level,
          "coverage": cov, "assumptions": assumptions, "wall_s": round(time.time() - t0, 1), "violations": nviol}
    with open(path, "w") as f:
        json.dump(ev, f, indent=1)


if __name__ == "__main__":
    sys.exit(main(sys.argv))
