"""Core of the /verif machinery: extraction, Kani/Verus runners, classification, evidence.

Vocabulary
  fragment    original source bytes of an item of /repo, copied by span (tools/extract)
  unit        a generated verifier input (a Kani crate or a Verus file) built from fragments + env
  obligation  one named proof goal of a unit: a Kani harness or a Verus function
Outcome classes per obligation: discharged | failed (verifier verdict) | undecided (tool limit,
lost anchor, timeout, unsatisfied cover ...).  Only `failed` can become a VIOLATION.
"""
import hashlib
import json
import os
import re
import shutil
import subprocess
import sys
import time
from concurrent.futures import ThreadPoolExecutor
from dataclasses import dataclass, field
from typing import Callable, Dict, List, Optional

ROOT = os.path.dirname(os.path.dirname(os.path.abspath(__file__)))
REPO = os.environ.get("VERIF_REPO", "/repo")
BUILD = os.path.join(ROOT, "build")
EXTRACT_BIN = os.path.join(ROOT, "tools/extract/target/release/verif-extract")
ENV = dict(os.environ, CARGO_NET_OFFLINE="true")


class Undecided(Exception):
    """Raised when a unit cannot be built (lost anchor, rewrite mismatch): exit 2, never an alarm."""


# --------------------------------------------------------------------------- extraction

def extract(specs: List[dict]) -> Dict[str, dict]:
    """specs: [{id, file, locator}] -> {id: fragment}.  Raises Undecided if any locator fails."""
    os.makedirs(BUILD, exist_ok=True)
    p = os.path.join(BUILD, "extract-%d-%s.json" % (os.getpid(), hashlib.sha1(json.dumps(specs, sort_keys=True).encode()).hexdigest()[:8]))
    with open(p, "w") as f:
        json.dump({"root": REPO, "fragments": specs}, f)
    r = subprocess.run([EXTRACT_BIN, p], capture_output=True, text=True)
    os.unlink(p)
    if r.returncode not in (0, 2) or not r.stdout.strip():
        raise Undecided("extractor crashed: " + r.stderr[-2000:])
    out = json.loads(r.stdout)
    if out["errors"]:
        raise Undecided("lost anchors: " + "; ".join("%s: %s" % (e["id"], e["error"]) for e in out["errors"]))
    return out["fragments"]


def frag_record(fr: dict) -> dict:
    return {k: fr[k] for k in ("file", "first_line", "last_line", "sha256")}


def rewrite_once(text: str, pattern: str, repl: str, rule: str, log: list, regex=False, count=1) -> str:
    """Apply a catalogued rewrite (DESIGN 1.2) that must match exactly `count` times."""
    if regex:
        n = len(re.findall(pattern, text))
    else:
        n = text.count(pattern)
    if n != count:
        raise Undecided("rewrite %s: pattern %r matched %d times (expected %d)" % (rule, pattern[:60], n, count))
    new = re.sub(pattern, repl, text) if regex else text.replace(pattern, repl)
    log.append({"rule": rule, "before": pattern if not regex else "re:" + pattern, "after": repl, "times": n})
    return new


def strip_attrs(text: str, log: list, names=("derive", "serde", "error", "doc", "allow", "inline", "cfg_attr", "must_use")) -> str:
    """R1: drop outer attributes (derives etc.) that name crates absent from the harness."""
    pat = re.compile(r"^[ \t]*#\[(%s)\b[^\n]*\]\s*\n" % "|".join(names), re.M)
    new, n = pat.subn("", text)
    if n:
        log.append({"rule": "R1", "before": "outer attributes " + ",".join(names), "after": "", "times": n})
    return new


# --------------------------------------------------------------------------- obligations

@dataclass
class Ob:
    name: str                 # harness / verus fn name (unique within the unit)
    prop: str                 # property the functional part belongs to
    complete: bool = True     # False => bounded stand-in
    bound: str = ""           # stated bound if not complete
    what: str = ""            # one line: what is being proved
    panic_prop: Optional[str] = None   # property that gets panic-class failures (C17/C21/..); None => same as prop
    info_only: bool = False   # informational obligation: never alarms (e.g. completeness / weaker precondition)
    known: Optional[str] = None        # id in known_findings.jsonl this obligation is split out for
    expect_fail: bool = False          # vacuity twin: must FAIL (assert(false) behind the precondition)
    inputs: List[str] = field(default_factory=list)   # names of kani::any() values in call order
    replay: Optional[Callable] = None  # fn(ob, cex) -> dict describing real-code behaviour
    # results
    unit: str = ""
    engine: str = ""
    result: str = "undecided"  # discharged | failed | undecided
    seconds: float = 0.0
    checks: int = 0
    failed_checks: List[dict] = field(default_factory=list)
    detail: str = ""
    cex: Optional[list] = None


PANIC_PAT = re.compile(
    r"attempt to|index out of bounds|out of range|unwrap\(\)|called `|expect|panicked|explicit panic|unreachable|"
    r"slice|byte index|char boundary|capacity overflow|range end|range start|arithmetic overflow|divide by zero|"
    r"dereference failure|pointer|memcpy|misaligned|not yet implemented|internal error|assertion failed: (?!OB:)", re.I)


def is_functional(desc: str) -> bool:
    return "OB:" in desc


# --------------------------------------------------------------------------- Kani

@dataclass
class KaniUnit:
    name: str
    files: Dict[str, str]             # relative path -> text (src/lib.rs ...)
    obligations: List[Ob]
    deps: Dict[str, str] = field(default_factory=dict)   # crate -> version/spec line
    flags: List[str] = field(default_factory=list)
    timeout_s: int = 600
    jobs: int = 8
    fragments: List[dict] = field(default_factory=list)
    rewrites: List[dict] = field(default_factory=list)
    assumptions: List[str] = field(default_factory=list)
    auto_files: List[str] = field(default_factory=list)   # repo files searched for free fns / consts the fragments start to call
    engine = "kani"

    def dir(self):
        return os.path.join(BUILD, "kani", self.name)

    def materialise(self):
        d = self.dir()
        os.makedirs(os.path.join(d, "src"), exist_ok=True)
        os.makedirs(os.path.join(d, ".cargo"), exist_ok=True)
        deps = "\n".join('%s = %s' % (k, v if v.strip().startswith("{") else '"%s"' % v) for k, v in self.deps.items())
        cargo = ('[package]\nname = "%s"\nversion = "0.1.0"\nedition = "2021"\n\n[dependencies]\n%s\n\n[workspace]\n\n'
                 '[lints.rust]\nunexpected_cfgs = { level = "allow", check-cfg = [\'cfg(kani)\'] }\n'
                 % (self.name.replace("_", "-"), deps))
        _write_if_changed(os.path.join(d, "Cargo.toml"), cargo)
        _write_if_changed(os.path.join(d, ".cargo/config.toml"), "[net]\noffline = true\n")
        lock = os.path.join(d, "Cargo.lock")
        if not os.path.exists(lock):
            shutil.copy(os.path.join(REPO, "Cargo.lock"), lock)
        for rel, text in self.files.items():
            p = os.path.join(d, rel)
            os.makedirs(os.path.dirname(p), exist_ok=True)
            _write_if_changed(p, text)

    def run(self, log):
        for _round in range(4):
            self._run_once(log)
            if not self._pull_missing_items():
                break

    def _pull_missing_items(self):
        """Dependency closure: if the fragments now call a free fn / use a const that is not in the unit, extract it
        verbatim from the same repo files (auto_files) and retry.  A helper introduced by a refactor therefore comes
        under the same check instead of making the unit undecided."""
        if not self.auto_files:
            return False
        text = open(os.path.join(self.dir(), "kani.out"), errors="replace").read()
        names = set(re.findall(r"error\[E0425\]: cannot find (?:function|value) `([A-Za-z_0-9]+)` in this scope", text))
        methods = set(re.findall(r"error\[E0599\]: no method named `([A-Za-z_0-9]+)` found for (?:struct|enum|reference|mutable reference) `&?(?:mut )?([A-Za-z_0-9]+)", text))
        if not names and not methods:
            return False
        added = []
        for (mname, ty) in sorted(methods):
            for f in self.auto_files:
                try:
                    got = extract([{"id": "x", "file": f, "locator": {"kind": "impl_fn", "self_ty": ty, "name": mname, "trait": "-"}}])["x"]
                except Undecided:
                    continue
                got = dict(got, text="impl %s {\n%s\n}" % (ty, got["text"]))
                added.append(got)
                self.fragments.append(dict(frag_record(got), note="pulled in automatically: method `%s::%s` is now called by a fragment" % (ty, mname)))
                break
        for n in sorted(names):
            for f in self.auto_files:
                got = None
                for loc in ({"kind": "fn", "name": n}, {"kind": "item", "item": "const", "name": n}, {"kind": "item", "item": "static", "name": n}):
                    try:
                        got = extract([{"id": "x", "file": f, "locator": loc}])["x"]
                        break
                    except Undecided:
                        continue
                if got:
                    added.append(got)
                    self.fragments.append(dict(frag_record(got), note="pulled in automatically: `%s` is now referenced by a fragment" % n))
                    break
        if not added:
            return False
        marker = "// @AUTO_DEPS@"
        main = "src/lib.rs"
        if marker not in self.files[main]:
            self.files[main] += "\n" + marker + "\n"
        self.files[main] = self.files[main].replace(marker, "\n".join(a["text"] for a in added) + "\n" + marker)
        self.rewrites.append({"rule": "auto-deps", "before": "unresolved names %s %s" % (sorted(names), sorted(methods)), "after": "%d items extracted verbatim" % len(added), "times": len(added)})
        return True

    def _run_once(self, log):
        self.materialise()
        for ob in self.obligations:
            ob.unit, ob.engine = self.name, "kani"
            ob.result, ob.detail, ob.failed_checks, ob.cex = "undecided", "", [], None
        names = [ob.name for ob in self.obligations]
        cmd = ["cargo", "kani", "-Z", "function-contracts", "-Z", "stubbing", "-Z", "unstable-options",
               "--harness-timeout", "%ds" % self.timeout_s, "--output-format", "terse", "-j", str(max(2, self.jobs)),
               "--exact"] + self.flags
        for n in names:
            cmd += ["--harness", "h::" + n]
        t0 = time.time()
        outp = os.path.join(self.dir(), "kani.out")
        with open(outp, "w") as f:
            try:
                subprocess.run(cmd, cwd=self.dir(), stdout=f, stderr=subprocess.STDOUT, env=ENV,
                               timeout=self.timeout_s * (1 + len(names) // max(2, self.jobs)) + 900)
            except subprocess.TimeoutExpired:
                _kill_cbmc_under(self.dir())
        _reap_orphan_solvers()
        text = open(outp, errors="replace").read()
        self.wall = time.time() - t0
        self.cmd = " ".join(cmd)
        parse_kani_terse(text, {("h::" + ob.name): ob for ob in self.obligations})
        if "error: could not compile" in text or re.search(r"^error(\[E\d+\])?:", text, re.M):
            errs = "\n".join(re.findall(r"^error.*(?:\n(?!warning|error).*){0,12}", text, re.M)[:4])
            for ob in self.obligations:
                if ob.result == "undecided" and not ob.detail:
                    ob.detail = "unit did not compile under Kani:\n" + errs[:3000]
        # counterexamples for failed obligations (sequential; concrete playback is incompatible with -j)
        for ob in self.obligations:
            if ob.result == "failed" and not ob.expect_fail:
                ob.cex = self.playback(ob)
        log("  unit %-28s kani  %3d harnesses  %.0fs" % (self.name, len(names), self.wall))

    def playback(self, ob):
        cmd = ["cargo", "kani", "-Z", "function-contracts", "-Z", "stubbing", "-Z", "concrete-playback",
               "--concrete-playback=print", "--exact", "--harness", "h::" + ob.name] + self.flags
        try:
            r = subprocess.run(cmd, cwd=self.dir(), capture_output=True, text=True, env=ENV, timeout=self.timeout_s + 300)
        except subprocess.TimeoutExpired:
            _kill_cbmc_under(self.dir())
            return None
        blocks = re.findall(r"Concrete playback unit test.*?```(.*?)```", r.stdout, re.S)
        # one test per satisfied cover AND per failed check: take the first one generated for a failed check
        blocks = [b for b in blocks if not re.search(r"Check for `cover`", b)]
        if not blocks:
            return None
        body = blocks[0]
        body = body[body.index("vec!["):] if "vec![" in body else body
        vals = []
        for vm in re.finditer(r"(?://\s*(\S+)\s*\n\s*)?vec!\[([0-9,\s]*)\]", body[len("vec!["):]):
            bs = [int(x) for x in vm.group(2).replace(" ", "").split(",") if x]
            vals.append({"bytes": bs, "le": int.from_bytes(bytes(bs), "little") if bs else 0})
        for i, v in enumerate(vals):
            if i < len(ob.inputs):
                v["name"] = ob.inputs[i]
        return vals


def _reap_orphan_solvers():
    """Kani's --harness-timeout kills cbmc but not the z3 it spawned for the SMT back end: the solver is re-parented to
    init and keeps a core busy for hours. Kill z3 processes that (a) work on one of CBMC's temporary problem files and
    (b) have lost their parent."""
    r = subprocess.run(["pgrep", "-x", "z3"], capture_output=True, text=True)
    for pid in r.stdout.split():
        try:
            args = open("/proc/%s/cmdline" % pid, "rb").read().decode(errors="replace")
            ppid = int(re.search(r"^PPid:\s*(\d+)", open("/proc/%s/status" % pid).read(), re.M).group(1))
        except (OSError, AttributeError, ValueError):
            continue
        if "smt2_dec_problem" in args and ppid == 1:
            subprocess.run(["kill", "-9", pid])


def _kill_cbmc_under(d):
    r = subprocess.run(["pgrep", "-x", "cbmc"], capture_output=True, text=True)
    for pid in r.stdout.split():
        try:
            cwd = os.readlink("/proc/%s/cwd" % pid)
        except OSError:
            continue
        if cwd.startswith(d):
            subprocess.run(["kill", pid])


def parse_kani_terse(text: str, obs: Dict[str, Ob]):
    cur = {}      # thread -> harness
    blocks = {}   # harness -> list of lines
    thread = None
    single = None
    for line in text.splitlines():
        m = re.match(r"Thread (\d+): Checking harness (\S+?)\.\.\.", line)
        if m:
            cur[m.group(1)] = m.group(2)
            thread = None
            continue
        m = re.match(r"Checking harness (\S+?)\.\.\.", line)
        if m:
            single = m.group(1)
            blocks.setdefault(single, [])
            thread = "single"
            cur["single"] = single
            continue
        m = re.match(r"Thread (\d+):\s*$", line)
        if m:
            thread = m.group(1)
            blocks.setdefault(cur.get(thread, "?"), [])
            continue
        if line.startswith("Manual Harness Summary") or line.startswith("Complete - "):
            thread = None
            continue
        if thread is not None and cur.get(thread) in blocks:
            blocks[cur[thread]].append(line)
    for h, ob in obs.items():
        if h not in blocks:
            ob.result = "undecided"
            ob.detail = ob.detail or "harness produced no result block (not run / compile error)"
            continue
        b = "\n".join(blocks[h])
        m = re.search(r"Verification Time: ([0-9.]+)s", b)
        ob.seconds = float(m.group(1)) if m else 0.0
        m = re.search(r"\*\* (\d+) of (\d+) failed", b)
        nfail, ob.checks = (int(m.group(1)), int(m.group(2))) if m else (0, 0)
        ob.failed_checks = [{"desc": d.strip(), "where": w.strip()} for d, w in
                            re.findall(r"Failed Checks: (.*)\n\s*File: (.*)", b)]
        cov = re.search(r"\*\* (\d+) of (\d+) cover properties satisfied", b)
        if "VERIFICATION:- SUCCESSFUL" in b:
            if cov and cov.group(1) != cov.group(2):
                ob.result, ob.detail = "undecided", "vacuity: only %s of %s cover points reachable" % cov.groups()
            elif ob.checks == 0:
                ob.result, ob.detail = "undecided", "vacuity: zero checks generated"
            else:
                ob.result = "discharged"
        elif "VERIFICATION:- FAILED" in b:
            if "timed out" in b or "CBMC failed" in b or "out of memory" in b.lower():
                ob.result, ob.detail = "undecided", "solver limit: " + " ".join(b.split())[:300]
            elif any("unwinding assertion" in f["desc"] for f in ob.failed_checks):
                ob.result, ob.detail = "undecided", "unwinding bound too small: " + json.dumps(ob.failed_checks)[:400]
            elif ob.failed_checks and any("STRUCT:" in f["desc"] for f in ob.failed_checks):
                # a structural obligation pins HOW the code establishes something; if it fails the contract no longer applies
                ob.result, ob.detail = "undecided", "code structure changed, contract not applicable: " + "; ".join(f["desc"] for f in ob.failed_checks)[:400]
            elif ob.failed_checks:
                ob.result = "failed"
                ob.detail = "; ".join("%s @ %s" % (f["desc"], f["where"]) for f in ob.failed_checks)[:1500]
            else:
                ob.result, ob.detail = "undecided", "FAILED without failed checks: " + " ".join(b.split())[:300]
        else:
            ob.result, ob.detail = "undecided", "no verdict: " + " ".join(b.split())[:300]
        if ob.expect_fail:
            # vacuity twin: assert(false) behind the assumptions must be reachable => FAILED is the good outcome
            if ob.result == "failed":
                ob.result, ob.detail = "discharged", "twin failed as required (precondition satisfiable)"
            elif ob.result == "discharged":
                ob.result, ob.detail = "undecided", "vacuity: assert(false) behind the precondition verified"


# --------------------------------------------------------------------------- Verus

@dataclass
class VerusUnit:
    name: str
    text: str
    obligations: List[Ob]          # one per verified function (name = function name as Verus reports it)
    timeout_s: int = 300
    fragments: List[dict] = field(default_factory=list)
    rewrites: List[dict] = field(default_factory=list)
    assumptions: List[str] = field(default_factory=list)
    extra_args: List[str] = field(default_factory=list)
    engine = "verus"

    def path(self):
        return os.path.join(BUILD, "verus", self.name + ".rs")

    def run(self, log):
        os.makedirs(os.path.dirname(self.path()), exist_ok=True)
        _write_if_changed(self.path(), self.text)
        for ob in self.obligations:
            ob.unit, ob.engine = self.name, "verus"
        cmd = ["verus", self.path(), "--output-json", "--time", "--multiple-errors", "50", "--num-threads", "8"] + self.extra_args
        self.cmd = " ".join(cmd)
        t0 = time.time()
        try:
            r = subprocess.run(cmd, capture_output=True, text=True, timeout=self.timeout_s, cwd=os.path.dirname(self.path()))
            out, err = r.stdout, r.stderr
        except subprocess.TimeoutExpired:
            out, err = "", "timeout"
        self.wall = time.time() - t0
        with open(self.path() + ".out", "w") as f:
            f.write(out + "\n---- stderr ----\n" + err)
        res = None
        try:
            res = json.loads(out[out.index("{"):])
        except Exception:
            pass
        vr = (res or {}).get("verification-results", {})
        self.verified = vr.get("verified", 0)
        self.errors = vr.get("errors", 0)
        self.smt_s = ((res or {}).get("times-ms", {}).get("smt", {}) or {}).get("total", 0) / 1000.0 if res else 0
        # map error messages to functions by line number
        fn_spans = _verus_fn_spans(self.text)
        failed = {}
        hard_error = None
        for m in re.finditer(r"^(error(?:\[E\d+\])?: [^\n]*)\n\s*--> [^:\n]*:(\d+):\d+((?:\n(?!error|warning|note: ).*)*)", err, re.M):
            msg, line = m.group(1), int(m.group(2))
            body = m.group(0)
            fn = next((n for n, a, b in fn_spans if a <= line <= b), None)
            # a failed pre/postcondition points at the call / ensures clause; find every line mentioned
            lines = [int(x) for x in re.findall(r"-->\s*[^:\n]*:(\d+):", body)] + [int(x) for x in re.findall(r"^\s*(\d+)\s*\|", body, re.M)]
            fns = [n for n, a, b in fn_spans for l in lines if a <= l <= b]
            if re.search(r"postcondition not satisfied|precondition not satisfied|assertion failed|invariant not satisfied|"
                         r"possible arithmetic underflow/overflow|possible division by zero|decreases not satisfied|"
                         r"loop invariant|recommendation not met|possible bit shift", msg):
                for f_ in set(fns or [fn]):
                    failed.setdefault(f_, []).append({"desc": msg, "where": "line %d" % line, "text": body[:1200]})
            elif "rlimit" in msg or "timed out" in msg or "Resource limit" in body:
                for f_ in set(fns or [fn]):
                    failed.setdefault(f_, []).append({"desc": "RLIMIT " + msg, "where": "line %d" % line, "text": body[:600]})
            elif msg.startswith("error: aborting") or "could not" in msg:
                continue
            else:
                hard_error = (hard_error or "") + body[:1500] + "\n"
        for ob in self.obligations:
            ob.seconds = self.wall / max(1, len(self.obligations))
            if res is None or hard_error:
                ob.result = "undecided"
                ob.detail = "verus did not complete: " + (hard_error or err[-1500:])
                continue
            fl = failed.get(ob.name, [])
            if not fl:
                ob.result = "discharged"
            elif any(f["desc"].startswith("RLIMIT") for f in fl):
                ob.result, ob.detail = "undecided", "solver limit: " + fl[0]["desc"]
            else:
                ob.result = "failed"
                # a violated callee precondition is a potential panic (panic class); everything else is functional
                ob.failed_checks = [{"desc": (f["desc"] if "precondition not satisfied" in f["desc"] else "OB: " + f["desc"]), "where": f["where"]} for f in fl]
                ob.detail = "\n".join(f["text"] for f in fl)[:3000]
            if ob.expect_fail:
                if ob.result == "failed":
                    ob.result, ob.detail, ob.failed_checks = "discharged", "twin failed as required (precondition satisfiable)", []
                elif ob.result == "discharged":
                    ob.result, ob.detail = "undecided", "vacuity: assert(false) behind the precondition verified"
        unknown = set(failed) - {ob.name for ob in self.obligations}
        if unknown and res is not None and not hard_error:
            # a failure in a function that is not a listed obligation (lemma, helper) => nothing is trusted
            for ob in self.obligations:
                if ob.result == "discharged":
                    ob.result = "undecided"
                    ob.detail = "failure in unlisted function(s) %s" % sorted(str(u) for u in unknown)
        log("  unit %-28s verus %3d fns  verified=%s errors=%s  %.0fs" % (self.name, len(self.obligations), self.verified, self.errors, self.wall))


def _verus_fn_spans(text):
    """[(fn name, first line, last line)]: an item-level `fn` spans up to the line before the next item-level fn
    (good enough for the generated files: contracts, body and proof blocks all lie in that range)."""
    lines = text.split("\n")
    pat = re.compile(r"^(?:    )?(?:pub(?:\([a-z]+\))?\s+)?(?:open |closed |broadcast |uninterp )*(?:proof |exec |spec )?fn\s+([A-Za-z_0-9]+)")
    starts = [(m.group(1), i + 1) for i, l in enumerate(lines) for m in [pat.match(l)] if m]
    spans = []
    for k, (name, st) in enumerate(starts):
        en = starts[k + 1][1] - 1 if k + 1 < len(starts) else len(lines)
        spans.append((name, st, en))
    return spans


def _write_if_changed(p, text):
    try:
        if open(p).read() == text:
            return
    except OSError:
        pass
    with open(p, "w") as f:
        f.write(text)


# --------------------------------------------------------------------------- assumption scan

SCAN = re.compile(r"\b(kani::assume|assume\s*\(|admit\s*\(|external_body|assume_specification|kani::stub\b|stub_verified|external_fn_specification|external_type_specification|#\[verifier::external\])")


def scan_assumptions(text: str) -> Dict[str, int]:
    out = {}
    for m in SCAN.finditer(text):
        k = m.group(1).strip().rstrip("(").strip()
        out[k] = out.get(k, 0) + 1
    return out
