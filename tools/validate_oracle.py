#!/usr/bin/env python3
"""Validate the TRUSTED FuelVM ALU oracle (spec/vm_alu.rs, python twin below) against the real fuel-vm:
generate a Sway test project that executes every ALU instruction on boundary operands through `asm` blocks,
run it with the real `forc test` (built from /repo), and report any disagreement.  Assumption validation, not proof.
usage: tools/validate_oracle.py   (needs /repo/target/debug/forc: `cargo build -p forc --offline` in /repo)"""
import os, subprocess, sys, re
M = (1 << 64) - 1
def vm(op, b, c):
    if op == "add": r = b + c; return r if r <= M else None
    if op == "sub": return b - c if b >= c else None
    if op == "mul": r = b * c; return r if r <= M else None
    if op == "div": return b // c if c else None
    if op == "mod": return b % c if c else None
    if op == "exp":
        r = b ** c if c < 70 or b < 2 else M + 1
        return r if r <= M else None
    if op == "mlog":
        if b == 0 or c <= 1: return None
        k = 0; p = c
        while p <= b: p *= c; k += 1
        return k
    if op == "sll": return (b << c) & M if c < 64 else 0
    if op == "srl": return b >> c if c < 64 else 0
    if op == "and": return b & c
    if op == "or": return b | c
    if op == "xor": return b ^ c
    if op == "eq": return int(b == c)
    if op == "gt": return int(b > c)
    if op == "lt": return int(b < c)
    raise KeyError(op)
VALS = [0, 1, 2, 3, 63, 64, 65, (1 << 32) - 1, 1 << 32, (1 << 32) + 1, 1 << 63, M - 1, M]
OPS = ["add", "sub", "mul", "div", "mod", "exp", "mlog", "sll", "srl", "and", "or", "xor", "eq", "gt", "lt"]
d = os.path.join(os.path.dirname(os.path.dirname(os.path.abspath(__file__))), "replay/sway/oracle_validation")
out = ["library;\n"]
n_ok = n_panic = 0
for op in OPS:
    out.append("#[test]\nfn %s_values() {" % op)
    panics = []
    for b in VALS:
        for c in VALS:
            r = vm(op, b, c)
            if r is None:
                panics.append((b, c))
            else:
                out.append("    assert(asm(a: %d, b: %d, r) { %s r a b; r: u64 } == %d);" % (b, c, op, r)); n_ok += 1
    out.append("}")
    for i, (b, c) in enumerate(panics[:12]):   # a sample of the panicking operand pairs: each needs its own test
        # a VM panic is reported by forc test as Revert(0); the result is used so that the instruction is not removed as dead code
        out.append("#[test(should_revert = \"0\")]\nfn %s_panics_%d() { let r = asm(a: %d, b: %d, r) { %s r a b; r: u64 }; assert(r != 123456789); }" % (op, i, b, c, op)); n_panic += 1
out.append("#[test]\nfn not_values() {")
for b in VALS:
    out.append("    assert(asm(a: %d, r) { not r a; r: u64 } == %d);" % (b, M ^ b)); n_ok += 1
out.append("}")
open(os.path.join(d, "src/main.sw"), "w").write("\n".join(out) + "\n")
open(os.path.join(d, "Forc.toml"), "w").write('[project]\nauthors = ["verif"]\nentry = "main.sw"\nlicense = "Apache-2.0"\nname = "oracle_validation"\nimplicit-std = false\n\n[dependencies]\nstd = { path = "/repo/sway-lib-std" }\n')
print("generated %d value assertions and %d should_revert tests" % (n_ok, n_panic))
for mode in ([], ["--release"]):
    r = subprocess.run(["/repo/target/debug/forc", "test", "--offline"] + mode, cwd=d, capture_output=True, text=True)
    txt = re.sub(r"\x1b\[[0-9;]*m", "", r.stdout + r.stderr)
    res = [l for l in txt.splitlines() if "test result" in l or "FAILED" in l]
    print(" ".join(mode) or "debug", "->", "; ".join(res)[:400])
