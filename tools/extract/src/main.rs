//! verif-extract: copy the *original source bytes* of items out of /repo by syn span.
//!
//! usage: verif-extract <spec.json>      (spec: {"root": "/repo", "fragments": [ {id, file, locator}, ... ]})
//! prints a JSON object {"fragments": {id: {...}}, "errors": [..]}; exit 0 if every locator
//! resolved exactly once, exit 2 otherwise (a lost or ambiguous anchor is never an alarm).
//!
//! Locators (JSON objects, field "kind"):
//!   fn        {name}                                   free function (any inline module, not #[cfg(test)])
//!   impl_fn   {self_ty, name, trait?}                  method of an impl block; trait "-" = inherent only
//!   impl      {self_ty, trait?, nth?}                  whole impl block
//!   item      {item: enum|struct|const|static|type|trait|macro_rules|union, name}
//!   in_fn     {fn: <fn|impl_fn locator>, what: let|match|macro_rules|item, ...}
//!               let:   {binds: "reset"}                the whole `let` statement
//!               match: {nth: k} | {scrutinee: "text", arm0?: "first arm pattern", nth?}  a match expression (with arms)
//!               macro_rules: {name}                    a local macro definition
//! Options on any locator: "attrs": "keep"|"strip" (default keep).
use proc_macro2::Span;
use serde_json::{json, Value};
use sha2::{Digest, Sha256};
use std::fs;
use syn::spanned::Spanned;
use syn::visit::Visit;

struct Src {
    text: String,
    line_starts: Vec<usize>,
}
impl Src {
    fn new(text: String) -> Self {
        let mut line_starts = vec![0usize];
        for (i, b) in text.bytes().enumerate() {
            if b == b'\n' {
                line_starts.push(i + 1);
            }
        }
        Src { text, line_starts }
    }
    fn off(&self, lc: proc_macro2::LineColumn) -> usize {
        let ls = self.line_starts[lc.line - 1];
        let rest = &self.text[ls..];
        ls + rest.char_indices().nth(lc.column).map(|(b, _)| b).unwrap_or(rest.len())
    }
    fn range(&self, sp: Span) -> (usize, usize) {
        (self.off(sp.start()), self.off(sp.end()))
    }
}

fn squash(s: &str) -> String {
    s.chars().filter(|c| !c.is_whitespace()).collect()
}
fn is_cfg_test(attrs: &[syn::Attribute]) -> bool {
    attrs.iter().any(|a| {
        a.path().is_ident("cfg")
            && match &a.meta {
                syn::Meta::List(l) => squash(&l.tokens.to_string()) == "test",
                _ => false,
            }
    })
}

#[derive(Clone)]
enum Found<'a> {
    Fn(&'a syn::ItemFn),
    ImplFn(&'a syn::ImplItemFn, &'a syn::ItemImpl),
    Impl(&'a syn::ItemImpl),
    Item(&'a syn::Item),
}

fn walk_items<'a>(items: &'a [syn::Item], f: &mut dyn FnMut(&'a syn::Item)) {
    for it in items {
        match it {
            syn::Item::Mod(m) => {
                if is_cfg_test(&m.attrs) {
                    continue;
                }
                if let Some((_, inner)) = &m.content {
                    walk_items(inner, f);
                }
            }
            _ => f(it),
        }
    }
}

fn impl_matches(imp: &syn::ItemImpl, src: &Src, self_ty: &str, tr: Option<&str>) -> bool {
    let (a, b) = src.range(imp.self_ty.span());
    if squash(&src.text[a..b]) != squash(self_ty) {
        return false;
    }
    match tr {
        None => true,
        Some("-") => imp.trait_.is_none(),
        Some(t) => match &imp.trait_ {
            None => false,
            Some((_, p, _)) => {
                let (a, b) = src.range(p.span());
                let full = squash(&src.text[a..b]);
                let last = p.segments.last().map(|s| s.ident.to_string()).unwrap_or_default();
                full == squash(t) || last == t
            }
        },
    }
}

fn find_top<'a>(file: &'a syn::File, src: &Src, loc: &Value) -> Result<Found<'a>, String> {
    let kind = loc["kind"].as_str().ok_or("locator without kind")?;
    let mut hits: Vec<Found<'a>> = vec![];
    match kind {
        "fn" => {
            let name = loc["name"].as_str().ok_or("fn locator without name")?;
            walk_items(&file.items, &mut |it| {
                if let syn::Item::Fn(f) = it {
                    if f.sig.ident == name && !is_cfg_test(&f.attrs) {
                        hits.push(Found::Fn(f));
                    }
                }
            });
        }
        "impl_fn" | "impl" => {
            let self_ty = loc["self_ty"].as_str().ok_or("impl locator without self_ty")?;
            let tr = loc["trait"].as_str();
            walk_items(&file.items, &mut |it| {
                if let syn::Item::Impl(imp) = it {
                    if is_cfg_test(&imp.attrs) || !impl_matches(imp, src, self_ty, tr) {
                        return;
                    }
                    if kind == "impl" {
                        hits.push(Found::Impl(imp));
                    } else {
                        let name = loc["name"].as_str().unwrap_or("");
                        for ii in &imp.items {
                            if let syn::ImplItem::Fn(f) = ii {
                                if f.sig.ident == name {
                                    hits.push(Found::ImplFn(f, imp));
                                }
                            }
                        }
                    }
                }
            });
            if let Some(n) = loc["nth"].as_u64() {
                let n = n as usize;
                if n < hits.len() {
                    let h = hits[n].clone();
                    hits = vec![h];
                } else {
                    return Err(format!("nth={} but only {} matches", n, hits.len()));
                }
            }
        }
        "item" => {
            let what = loc["item"].as_str().ok_or("item locator without item")?;
            let name = loc["name"].as_str().ok_or("item locator without name")?;
            walk_items(&file.items, &mut |it| {
                let ok = match (what, it) {
                    ("enum", syn::Item::Enum(e)) => e.ident == name,
                    ("struct", syn::Item::Struct(e)) => e.ident == name,
                    ("union", syn::Item::Union(e)) => e.ident == name,
                    ("const", syn::Item::Const(e)) => e.ident == name,
                    ("static", syn::Item::Static(e)) => e.ident == name,
                    ("type", syn::Item::Type(e)) => e.ident == name,
                    ("trait", syn::Item::Trait(e)) => e.ident == name,
                    ("macro_rules", syn::Item::Macro(m)) => {
                        m.ident.as_ref().map(|i| i == name).unwrap_or(false)
                    }
                    _ => false,
                };
                if ok {
                    hits.push(Found::Item(it));
                }
            });
        }
        k => return Err(format!("unknown locator kind {k}")),
    }
    match hits.len() {
        1 => Ok(hits.pop().unwrap()),
        0 => Err(format!("locator {} resolved to nothing", loc)),
        n => Err(format!("locator {} is ambiguous ({} matches)", loc, n)),
    }
}

#[derive(Default)]
struct Inner<'a> {
    lets: Vec<&'a syn::Local>,
    matches: Vec<&'a syn::ExprMatch>,
    macros: Vec<&'a syn::ItemMacro>,
    stmt_macros: Vec<&'a syn::StmtMacro>,
    loops: Vec<(String, Span, Span)>, // kind, whole, body block
    closures: Vec<&'a syn::ExprClosure>,
    items: Vec<(&'static str, String, Span)>, // nested items: kind, name, whole span (attributes included)
}
impl<'a> Visit<'a> for Inner<'a> {
    fn visit_item_fn(&mut self, f: &'a syn::ItemFn) {
        self.items.push(("fn", f.sig.ident.to_string(), f.span()));
        syn::visit::visit_item_fn(self, f);
    }
    fn visit_item_struct(&mut self, f: &'a syn::ItemStruct) {
        self.items.push(("struct", f.ident.to_string(), f.span()));
    }
    fn visit_item_enum(&mut self, f: &'a syn::ItemEnum) {
        self.items.push(("enum", f.ident.to_string(), f.span()));
    }
    fn visit_local(&mut self, l: &'a syn::Local) {
        self.lets.push(l);
        syn::visit::visit_local(self, l);
    }
    fn visit_expr_match(&mut self, m: &'a syn::ExprMatch) {
        self.matches.push(m);
        syn::visit::visit_expr_match(self, m);
    }
    fn visit_item_macro(&mut self, m: &'a syn::ItemMacro) {
        self.macros.push(m);
    }
    fn visit_stmt_macro(&mut self, m: &'a syn::StmtMacro) {
        self.stmt_macros.push(m);
    }
    fn visit_expr_while(&mut self, w: &'a syn::ExprWhile) {
        self.loops.push(("while".into(), w.span(), w.body.span()));
        syn::visit::visit_expr_while(self, w);
    }
    fn visit_expr_for_loop(&mut self, w: &'a syn::ExprForLoop) {
        self.loops.push(("for".into(), w.span(), w.body.span()));
        syn::visit::visit_expr_for_loop(self, w);
    }
    fn visit_expr_loop(&mut self, w: &'a syn::ExprLoop) {
        self.loops.push(("loop".into(), w.span(), w.body.span()));
        syn::visit::visit_expr_loop(self, w);
    }
    fn visit_expr_closure(&mut self, c: &'a syn::ExprClosure) {
        self.closures.push(c);
        syn::visit::visit_expr_closure(self, c);
    }
}

fn pat_binds(p: &syn::Pat, name: &str) -> bool {
    match p {
        syn::Pat::Ident(i) => i.ident == name,
        syn::Pat::Type(t) => pat_binds(&t.pat, name),
        syn::Pat::Tuple(t) => t.elems.iter().any(|e| pat_binds(e, name)),
        syn::Pat::Reference(r) => pat_binds(&r.pat, name),
        _ => false,
    }
}

fn frag(src: &Src, a: usize, b: usize) -> Value {
    let text = &src.text[a..b];
    let first_line = src.text[..a].bytes().filter(|c| *c == b'\n').count() + 1;
    let last_line = src.text[..b].bytes().filter(|c| *c == b'\n').count() + 1;
    let mut h = Sha256::new();
    h.update(text.as_bytes());
    json!({"text": text, "first_line": first_line, "last_line": last_line,
           "sha256": hex::encode(h.finalize()), "start": a, "end": b})
}

fn fn_extras(src: &Src, base: usize, block: &syn::Block, v: &mut Value) {
    let (ba, bb) = src.range(block.span());
    v["body_open"] = json!(ba - base);
    v["body_close"] = json!(bb - base);
    let mut inner = Inner::default();
    inner.visit_block(block);
    let loops: Vec<Value> = inner
        .loops
        .iter()
        .map(|(k, whole, body)| {
            let (wa, _) = src.range(*whole);
            let (la, lb) = src.range(*body);
            json!({"kind": k, "start": wa - base, "body_open": la - base, "body_close": lb - base})
        })
        .collect();
    v["loops"] = json!(loops);
    let closures: Vec<Value> = inner
        .closures
        .iter()
        .map(|c| {
            let (ca, cb) = src.range(c.span());
            let (ba, bb) = src.range(c.body.span());
            let or2 = src.range(c.or2_token.span()).1;
            let is_block = matches!(&*c.body, syn::Expr::Block(_));
            let params: Vec<String> = c
                .inputs
                .iter()
                .map(|p| {
                    let (a, b) = src.range(p.span());
                    src.text[a..b].to_string()
                })
                .collect();
            json!({"start": ca - base, "end": cb - base, "or2_end": or2 - base,
                   "body_start": ba - base, "body_end": bb - base, "body_is_block": is_block,
                   "params": params, "has_ret": !matches!(c.output, syn::ReturnType::Default)})
        })
        .collect();
    v["closures"] = json!(closures);
}

fn start_after_attrs(src: &Src, attrs: &[syn::Attribute], whole: (usize, usize), strip: bool) -> usize {
    if !strip {
        return whole.0;
    }
    let mut s = whole.0;
    for a in attrs {
        if matches!(a.style, syn::AttrStyle::Outer) {
            let e = src.range(a.span()).1;
            if e > s {
                s = e;
            }
        }
    }
    // skip whitespace
    let bytes = src.text.as_bytes();
    while s < whole.1 && (bytes[s] as char).is_whitespace() {
        s += 1;
    }
    s
}

fn emit_found(src: &Src, f: &Found, strip: bool) -> Value {
    match f {
        Found::Fn(fun) => {
            let whole = src.range(fun.span());
            let a = start_after_attrs(src, &fun.attrs, whole, strip);
            let mut v = frag(src, a, whole.1);
            fn_extras(src, a, &fun.block, &mut v);
            v["name"] = json!(fun.sig.ident.to_string());
            v
        }
        Found::ImplFn(fun, _) => {
            let whole = src.range(fun.span());
            let a = start_after_attrs(src, &fun.attrs, whole, strip);
            let mut v = frag(src, a, whole.1);
            fn_extras(src, a, &fun.block, &mut v);
            v["name"] = json!(fun.sig.ident.to_string());
            v
        }
        Found::Impl(imp) => {
            let whole = src.range(imp.span());
            let a = start_after_attrs(src, &imp.attrs, whole, strip);
            let mut v = frag(src, a, whole.1);
            let mut fns = vec![];
            for ii in &imp.items {
                if let syn::ImplItem::Fn(fun) = ii {
                    let w = src.range(fun.span());
                    let mut fv = json!({"name": fun.sig.ident.to_string(), "start": w.0 - a, "end": w.1 - a});
                    fn_extras(src, a, &fun.block, &mut fv);
                    fns.push(fv);
                }
            }
            v["fns"] = json!(fns);
            v
        }
        Found::Item(it) => {
            let whole = src.range(it.span());
            let attrs: &[syn::Attribute] = match it {
                syn::Item::Enum(e) => &e.attrs,
                syn::Item::Struct(e) => &e.attrs,
                syn::Item::Union(e) => &e.attrs,
                syn::Item::Const(e) => &e.attrs,
                syn::Item::Static(e) => &e.attrs,
                syn::Item::Type(e) => &e.attrs,
                syn::Item::Trait(e) => &e.attrs,
                syn::Item::Macro(e) => &e.attrs,
                _ => &[],
            };
            let a = start_after_attrs(src, attrs, whole, strip);
            frag(src, a, whole.1)
        }
    }
}

fn do_fragment(root: &str, spec: &Value) -> Result<Value, String> {
    let file = spec["file"].as_str().ok_or("fragment without file")?;
    let path = if file.starts_with('/') { file.to_string() } else { format!("{root}/{file}") };
    let text = fs::read_to_string(&path).map_err(|e| format!("{path}: {e}"))?;
    let src = Src::new(text);
    let parsed = syn::parse_file(&src.text).map_err(|e| format!("{path}: parse error: {e}"))?;
    let loc = &spec["locator"];
    let strip = loc["attrs"].as_str() == Some("strip");
    let kind = loc["kind"].as_str().unwrap_or("");
    let mut out = if kind == "in_fn" {
        let host = find_top(&parsed, &src, &loc["fn"])?;
        let block: &syn::Block = match &host {
            Found::Fn(f) => &f.block,
            Found::ImplFn(f, _) => &f.block,
            _ => return Err("in_fn host is not a function".into()),
        };
        let mut inner = Inner::default();
        inner.visit_block(block);
        match loc["what"].as_str().unwrap_or("") {
            "let" => {
                let b = loc["binds"].as_str().ok_or("let without binds")?;
                let hits: Vec<_> = inner.lets.iter().filter(|l| pat_binds(&l.pat, b)).collect();
                let nth = loc["nth"].as_u64().map(|n| n as usize);
                let l = match (hits.len(), nth) {
                    (_, Some(n)) if n < hits.len() => hits[n],
                    (1, None) => hits[0],
                    (n, _) => return Err(format!("let {} in fn: {} matches", b, n)),
                };
                let (a, e) = src.range(l.span());
                let mut v = frag(&src, a, e);
                if let Some(init) = &l.init {
                    let (ia, ie) = src.range(init.expr.span());
                    v["init_start"] = json!(ia - a);
                    v["init_end"] = json!(ie - a);
                    if let syn::Expr::Match(m) = &*init.expr {
                        v["arms"] = arms_json(&src, a, m);
                    }
                }
                v
            }
            "match" => {
                let m: &syn::ExprMatch = if let Some(s) = loc["scrutinee"].as_str() {
                    let hits: Vec<_> = inner
                        .matches
                        .iter()
                        .filter(|m| {
                            let (a, e) = src.range(m.expr.span());
                            squash(&src.text[a..e]) == squash(s)
                        })
                        .filter(|m| match loc["arm0"].as_str() {
                            None => true,
                            Some(p) => m.arms.first().map_or(false, |arm| {
                                let (a, e) = src.range(arm.pat.span());
                                squash(&src.text[a..e]) == squash(p)
                            }),
                        })
                        .collect();
                    let nth = loc["nth"].as_u64().map(|n| n as usize);
                    match (hits.len(), nth) {
                        (_, Some(n)) if n < hits.len() => hits[n],
                        (1, None) => hits[0],
                        (n, _) => return Err(format!("match on {}: {} matches", s, n)),
                    }
                } else {
                    let n = loc["nth"].as_u64().ok_or("match needs nth or scrutinee")? as usize;
                    inner.matches.get(n).ok_or("match nth out of range")?
                };
                let (a, e) = src.range(m.span());
                let mut v = frag(&src, a, e);
                let (sa, se) = src.range(m.expr.span());
                v["scrutinee"] = json!(&src.text[sa..se]);
                v["arms"] = arms_json(&src, a, m);
                v
            }
            "macro_rules" => {
                let name = loc["name"].as_str().ok_or("macro_rules without name")?;
                let hits: Vec<_> = inner
                    .macros
                    .iter()
                    .filter(|m| m.ident.as_ref().map(|i| i == name).unwrap_or(false))
                    .collect();
                if hits.len() != 1 {
                    return Err(format!("local macro {}: {} matches", name, hits.len()));
                }
                let (a, e) = src.range(hits[0].span());
                frag(&src, a, e)
            }
            "item" => {
                // an item (fn / struct / enum) declared inside the host function, attributes included
                let kind = loc["item"].as_str().ok_or("in_fn item without item kind")?;
                let name = loc["name"].as_str().ok_or("in_fn item without name")?;
                let hits: Vec<_> = inner.items.iter().filter(|(k, n, _)| *k == kind && n == name).collect();
                if hits.len() != 1 {
                    return Err(format!("local {} {}: {} matches", kind, name, hits.len()));
                }
                let (a, e) = src.range(hits[0].2);
                frag(&src, a, e)
            }
            w => return Err(format!("unknown in_fn what={w}")),
        }
    } else {
        let f = find_top(&parsed, &src, loc)?;
        emit_found(&src, &f, strip)
    };
    out["file"] = json!(file);
    Ok(out)
}

fn arms_json(src: &Src, base: usize, m: &syn::ExprMatch) -> Value {
    let arms: Vec<Value> = m
        .arms
        .iter()
        .map(|arm| {
            let (pa, pe) = src.range(arm.pat.span());
            let (ba, be) = src.range(arm.body.span());
            let (wa, we) = src.range(arm.span());
            let guard = arm.guard.as_ref().map(|(_, g)| {
                let (a, e) = src.range(g.span());
                src.text[a..e].to_string()
            });
            let line = src.text[..pa].bytes().filter(|c| *c == b'\n').count() + 1;
            json!({"pat": &src.text[pa..pe], "guard": guard, "body": &src.text[ba..be],
                   "start": wa - base, "end": we - base, "body_start": ba - base, "body_end": be - base, "line": line})
        })
        .collect();
    json!(arms)
}

fn main() {
    let args: Vec<String> = std::env::args().collect();
    if args.len() != 2 {
        eprintln!("usage: verif-extract <spec.json>");
        std::process::exit(64);
    }
    let spec: Value = serde_json::from_str(&fs::read_to_string(&args[1]).expect("read spec")).expect("spec json");
    let root = spec["root"].as_str().unwrap_or("/repo").to_string();
    let mut frags = serde_json::Map::new();
    let mut errors = vec![];
    for f in spec["fragments"].as_array().expect("fragments") {
        let id = f["id"].as_str().expect("fragment id").to_string();
        match do_fragment(&root, f) {
            Ok(v) => {
                frags.insert(id, v);
            }
            Err(e) => errors.push(json!({"id": id, "error": e})),
        }
    }
    let bad = !errors.is_empty();
    println!("{}", serde_json::to_string(&json!({"fragments": frags, "errors": errors})).unwrap());
    std::process::exit(if bad { 2 } else { 0 });
}
