#!/bin/sh
# usage: tools/mut.sh <prop> <file-in-repo> <sed-expr>   -- apply a mutation to /repo, run the check, restore
prop=$1; f=$2; expr=$3
cd /repo && sed -i "$expr" "$f" && git diff --stat | tail -1
cd /verif && ./check "$prop" ${4:+--only $4} | grep -E "VIOLATION|KNOWN|UNDECIDED|==|INFO|NOTE" | cut -c1-300
git -C /repo checkout -- .
