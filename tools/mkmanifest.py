#!/usr/bin/env python3
"""Regenerate MANIFEST.json from the table below (keeps it schema-valid at all times)."""
import json, os, sys
ROOT = os.path.dirname(os.path.dirname(os.path.abspath(__file__)))
sys.path.insert(0, ROOT)
from manifest_table import CHECKS, NOT_APPLICABLE, NOTES, THOROUGH_VALIDATED

checks = []
for c in CHECKS:
    checks.append({
        "property_id": c["id"],
        "quick_cmd": "./check %s --tier quick" % c["id"],
        # the thorough tier is registered only once it has been run to completion on the unchanged tree (THOROUGH_VALIDATED);
        # until then the thorough command is the quick one
        "thorough_cmd": "./check %s --tier %s" % (c["id"], "thorough" if c["id"] in THOROUGH_VALIDATED else "quick"),
        "evidence_file": "/verif/evidence/%s.json" % c["id"],
        "replay_cmd_template": "./check %s --replay {path}" % c["id"],
        "engine": c["engine"],
        "level_claimed": {"category": c["level"], "text": c["text"], "design_ref": c["design_ref"]},
        "level_note": c["note"],
        "technique": c["technique"],
    })
m = {
    "version": 1,
    "setup_cmd": "cd /verif/tools/extract && CARGO_NET_OFFLINE=true cargo build --release --offline",
    "hooks": {"guard": "fuellabs_sway_verif", "enable": "none needed: the machinery reads /repo's source (mechanical extraction) and links the unmodified crates for replay",
              "baseline_off_cmd": "cd /repo && cargo nextest run --workspace --no-fail-fast --test-threads 8 --offline || cargo test --workspace --no-fail-fast --offline",
              "source_commits": [], "add_only": True},
    "engines": [
        {"name": "kani", "path": "/verif/lib/vf.py", "serves_properties": [c["id"] for c in CHECKS if "kani" in c["engine"].lower()], "kind_free_text": "Kani 0.68/CBMC 6.11 harnesses over mechanically extracted functions of /repo"},
        {"name": "verus", "path": "/verif/lib/vf.py", "serves_properties": [c["id"] for c in CHECKS if "verus" in c["engine"].lower()], "kind_free_text": "Verus 0.2026.09.13 single-file verification of extracted functions with spliced contracts"},
    ],
    "checks": checks,
    "notes": NOTES,
    "not_applicable": NOT_APPLICABLE,
}
json.dump(m, open(os.path.join(ROOT, "MANIFEST.json"), "w"), indent=1)
print("MANIFEST.json written:", len(checks), "checks,", len(NOT_APPLICABLE), "not applicable")
