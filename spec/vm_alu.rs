// FuelVM ALU oracle (executable version).  TRUSTED: transcribed from fuel-vm 0.66.4
//   src/interpreter/alu.rs                       (alu_capture_overflow, alu_boolean_overflow, alu_error, alu_set, exp)
//   src/interpreter/executors/opcodes_impl.rs    (ADD, SUB, MUL, DIV, MOD, EXP, SLL, SRL, NOT, AND, OR, XOR, EQ, GT, LT, MLOG, MOVE, MOVI, NOOP + immediates)
// The outcome includes $of and $err, and depends on the $flag register (a program can set it at run time).
pub mod vm_alu {
    pub const F_UNSAFEMATH: u64 = 0x01;
    pub const F_WRAPPING: u64 = 0x02;

    #[derive(Clone, Copy, PartialEq, Eq, Debug)]
    pub enum Out {
        /// the instruction panics (ArithmeticOverflow / ArithmeticError): the transaction reverts
        Panic,
        /// destination value, $of, $err after the instruction
        Ok { v: u64, of: u64, err: u64 },
    }
    impl Out {
        pub fn value(self) -> Option<u64> { match self { Out::Ok { v, .. } => Some(v), Out::Panic => None } }
    }
    fn is_wrapping(flag: u64) -> bool { flag & F_WRAPPING != 0 }
    fn is_unsafe_math(flag: u64) -> bool { flag & F_UNSAFEMATH != 0 }

    /// alu_capture_overflow: result computed in u128; panic if > u64::MAX unless WRAPPING; $of = high word
    fn capture_overflow(result: u128, flag: u64) -> Out {
        if result > u64::MAX as u128 && !is_wrapping(flag) { return Out::Panic; }
        Out::Ok { v: (result & u64::MAX as u128) as u64, of: (result >> 64) as u64, err: 0 }
    }
    /// alu_boolean_overflow
    fn boolean_overflow(result: u64, overflow: bool, flag: u64) -> Out {
        if overflow && !is_wrapping(flag) { return Out::Panic; }
        Out::Ok { v: if overflow { 0 } else { result }, of: overflow as u64, err: 0 }
    }
    /// alu_error
    fn error(result_if_ok: u64, err_bool: bool, flag: u64) -> Out {
        if err_bool && !is_unsafe_math(flag) { return Out::Panic; }
        Out::Ok { v: if err_bool { 0 } else { result_if_ok }, of: 0, err: err_bool as u64 }
    }
    /// alu_set
    pub fn set(v: u64) -> Out { Out::Ok { v, of: 0, err: 0 } }

    // primitive operations factored out so that a harness can put them under a contract stub (`-Z stubbing`)
    pub fn prim_mul128(b: u64, c: u64) -> u128 { (b as u128).overflowing_mul(c as u128).0 }
    pub fn prim_div(b: u64, c: u64) -> u64 { b / c }
    pub fn prim_rem(b: u64, c: u64) -> u64 { b.wrapping_rem(c) }
    pub fn prim_pow(b: u64, e: u32) -> (u64, bool) { u64::overflowing_pow(b, e) }
    pub fn prim_ilog(b: u64, c: u64) -> u64 { b.ilog(c) as u64 }

    pub fn add(b: u64, c: u64, flag: u64) -> Out { capture_overflow((b as u128).overflowing_add(c as u128).0, flag) }
    pub fn sub(b: u64, c: u64, flag: u64) -> Out { capture_overflow((b as u128).overflowing_sub(c as u128).0, flag) }
    pub fn mul(b: u64, c: u64, flag: u64) -> Out { capture_overflow(prim_mul128(b, c), flag) }
    pub fn div(b: u64, c: u64, flag: u64) -> Out { error(if c == 0 { 0 } else { prim_div(b, c) }, c == 0, flag) }
    pub fn modulo(b: u64, c: u64, flag: u64) -> Out { error(if c == 0 { 0 } else { prim_rem(b, c) }, c == 0, flag) }
    /// alu::exp
    pub fn exp_raw(b: u64, c: u64) -> (u64, bool) {
        if let Ok(expo) = u32::try_from(c) { prim_pow(b, expo) } else if b < 2 { (b, false) } else { (0, true) }
    }
    pub fn exp(b: u64, c: u64, flag: u64) -> Out { let (r, o) = exp_raw(b, c); boolean_overflow(r, o, flag) }
    pub fn expi(b: u64, imm: u64, flag: u64) -> Out { let (r, o) = prim_pow(b, imm as u32); boolean_overflow(r, o, flag) }
    pub fn sll(b: u64, c: u64, _flag: u64) -> Out {
        set(if let Ok(c) = u32::try_from(c) { u64::checked_shl(b, c).unwrap_or_default() } else { 0 })
    }
    pub fn srl(b: u64, c: u64, _flag: u64) -> Out {
        set(if let Ok(c) = u32::try_from(c) { u64::checked_shr(b, c).unwrap_or_default() } else { 0 })
    }
    pub fn and(b: u64, c: u64, _flag: u64) -> Out { set(b & c) }
    pub fn or(b: u64, c: u64, _flag: u64) -> Out { set(b | c) }
    pub fn xor(b: u64, c: u64, _flag: u64) -> Out { set(b ^ c) }
    pub fn not(b: u64, _flag: u64) -> Out { set(!b) }
    pub fn eq(b: u64, c: u64, _flag: u64) -> Out { set((b == c) as u64) }
    pub fn gt(b: u64, c: u64, _flag: u64) -> Out { set((b > c) as u64) }
    pub fn lt(b: u64, c: u64, _flag: u64) -> Out { set((b < c) as u64) }
    pub fn mov(b: u64) -> Out { set(b) }
    /// NOOP: alu_clear (destination untouched; modelled by the caller)
    pub fn mlog(b: u64, c: u64, flag: u64) -> Out {
        let e = b == 0 || c <= 1;
        error(if e { 0 } else { prim_ilog(b, c) }, e, flag)
    }
}
